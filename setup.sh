#!/bin/sh
# Builds the executor(s) once, offline, against /repo's working tree.
cd "$(dirname "$0")/harness" || exit 2
[ -f Cargo.lock ] || cp /repo/Cargo.lock Cargo.lock
export CARGO_NET_OFFLINE=true
cargo build --offline --profile checked 2>&1 | tail -3
