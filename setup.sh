#!/bin/sh
# Builds the executor(s) once, offline, against /repo's working tree, and self-checks the reference models
# (spec vectors: zig-zag table, CRC-64-AVRO of the documented examples, PCF examples, snappy framing).
cd "$(dirname "$0")/harness" || exit 2
[ -f Cargo.lock ] || cp /repo/Cargo.lock Cargo.lock
export CARGO_NET_OFFLINE=true
cargo build --offline --profile checked 2>&1 | tail -3 || exit 2
[ -x ../target/checked/avmon-exec ] && [ -x ../target/checked/avmon-corpus ] || { echo "setup: harness binaries missing"; exit 2; }
cd .. && python3 tools/selfcheck.py
