"""Seeded schema generator: emits schema JSON (python objects); the node model comes from the
independent reference parser (ref/names.py), which also re-validates generator output."""
import json
import random

PRIMS = ['null', 'boolean', 'int', 'long', 'float', 'double', 'bytes', 'string']
LOGICAL_SIMPLE = [('date', 'int'), ('time-millis', 'int'), ('time-micros', 'long'),
                  ('timestamp-millis', 'long'), ('timestamp-micros', 'long'), ('timestamp-nanos', 'long'),
                  ('local-timestamp-millis', 'long'), ('local-timestamp-micros', 'long'),
                  ('local-timestamp-nanos', 'long')]
DOCS = ['plain doc', 'quote " and backslash \\ here', 'tab\tnewline\nend', 'unicode é中\U0001F600', '', '</script> ']
NAMESPACES = [None, 'a', 'a.b', 'com.example', 'x_1.y_2', 'a._b9', '_c', 'A.B_.c0']


class Opts:
    def __init__(self, **kw):
        self.max_depth = 3
        self.fanout = 4
        self.logical = True
        self.decorations = False      # docs, aliases, custom attributes, order
        self.defaults = False
        self.namespaces = True
        self.refs = True
        self.recursion = True
        self.unions = True
        self.named_in_union = True
        self.empty_ns_override = False   # explicitly empty namespace inside a namespaced type (C10 known finding)
        self.attr_on_logical = False     # extra attributes on logical-typed nodes
        self.__dict__.update(kw)


class NoDefault(Exception):
    pass


class SchemaGen:
    def __init__(self, rng, opts=None):
        self.r = rng
        self.o = opts or Opts()
        self.n = 0
        self.defined = []     # (full name, kind)
        self.open_records = []  # full names of records being defined (for recursion)
        self.defs = {}        # full name -> (json definition, namespace context inside it)
        self.fulls = set()

    def fresh(self, prefix):
        self.n += 1
        if self.r.random() < 0.08:
            prefix = '_' + prefix          # names may start with an underscore
        return '%s%d' % (prefix, self.n)

    # -- decorations
    def deco(self, obj, named=True):
        if not self.o.decorations:
            return obj
        r = self.r
        if named and r.random() < 0.4:
            obj['doc'] = r.choice(DOCS)
        if named and r.random() < 0.3:
            obj['aliases'] = [self.fresh('Al') for _ in range(r.randint(1, 2))]
        if r.random() < 0.4:
            obj[r.choice(['custom', 'x-attr', 'meta_1', 'java-class'])] = r.choice(
                [1, 'v', True, None, [1, 'two', {'k': []}], {'nested': {'a': 1.5}}, 'q"\\'])
        if r.random() < 0.15:
            # a custom attribute whose key is structural for OTHER kinds of schema (never for this one)
            t = obj.get('type')
            own = {'record': ('fields',), 'enum': ('symbols', 'default'), 'fixed': ('size',), 'array': ('items',), 'map': ('values',)}.get(t if isinstance(t, str) else None, ())
            pool = [k for k in ('precision', 'scale', 'size', 'symbols', 'items', 'values', 'fields') if k not in own]
            if obj.get('logicalType') == 'decimal':
                pool = [k for k in pool if k not in ('precision', 'scale')]
            if t == 'record':
                pool = [k for k in pool if k not in ('symbols', 'size')] + ['symbols', 'size']
            k = r.choice(pool)
            if k not in obj:
                obj[k] = r.choice([3, 'w', [1], {'z': None}])
        return obj

    def name_obj(self, base, ns_ctx):
        """returns (json fragment with name/namespace, resulting namespace)"""
        r = self.r
        n = self.fresh(base)
        # sometimes reuse the simple name of an earlier type in ANOTHER namespace (distinct full names
        # that share a simple name)
        used = getattr(self, 'used_names', None)
        if used is None:
            used = self.used_names = []
        if self.o.namespaces and used and r.random() < 0.12:
            simple, old_ns = r.choice(used)
            cands = [x for x in NAMESPACES if x and x != old_ns and (x + '.' + simple) not in self.fulls]
            if cands:
                ns = r.choice(cands)
                self.fulls.add(ns + '.' + simple)
                if r.random() < 0.5:
                    return {'name': simple, 'namespace': ns}, ns
                return {'name': ns + '.' + simple}, ns
        frag, ns2 = self._name_obj(n, ns_ctx)
        full = self.full(frag, ns2 if ('namespace' in frag or '.' in frag['name']) else ns_ctx)
        self.fulls.add(full)
        used.append((frag['name'].rpartition('.')[2], full.rpartition('.')[0] or None))
        return frag, ns2

    def _name_obj(self, n, ns_ctx):
        r = self.r
        if not self.o.namespaces:
            return {'name': n}, ns_ctx
        c = r.random()
        if c < 0.45:
            return {'name': n}, ns_ctx                          # inherit
        if c < 0.7:
            ns = r.choice([x for x in NAMESPACES if x])
            return {'name': n, 'namespace': ns}, ns             # explicit
        if c < 0.9:
            ns = r.choice([x for x in NAMESPACES if x])
            return {'name': ns + '.' + n}, ns                   # dotted
        if self.o.empty_ns_override or ns_ctx is None:
            return {'name': n, 'namespace': ''}, None           # explicitly empty
        return {'name': n}, ns_ctx

    def full(self, frag, ns):
        n = frag['name']
        if '.' in n:
            return n
        return (ns + '.' + n) if ns else n

    def ref_to(self, full, ns_ctx):
        """a reference spelling valid in namespace context ns_ctx"""
        if '.' in full:
            fns, _, n = full.rpartition('.')
            if fns == ns_ctx and self.r.random() < 0.5:
                return n
            return full
        # null-namespace name: a bare name resolves against the enclosing namespace, so it is only
        # valid from the null namespace
        return full if ns_ctx is None else None

    # -- generation
    def gen(self, depth=0, ns=None, in_union=False, used_kinds=None):
        r = self.r
        o = self.o
        leafy = depth >= o.max_depth
        choices = ['prim'] * 4
        if o.logical:
            choices += ['logical'] * 2
        if not leafy:
            choices += ['record'] * 3 + ['array', 'map', 'enum', 'fixed']
            if o.unions and not in_union:
                choices += ['union'] * 2
        else:
            choices += ['enum', 'fixed']
        if o.refs and self.defined:
            choices += ['ref']
        if o.recursion and self.open_records and depth > 0:
            choices += ['rec']
        c = r.choice(choices)
        if c == 'prim':
            p = r.choice(PRIMS[1:] if in_union and r.random() < 0.7 else PRIMS)
            return p if r.random() < 0.8 else self.deco({'type': p}, named=False)
        if c == 'logical':
            return self.gen_logical(ns)
        if c == 'record':
            return self.gen_record(depth, ns)
        if c == 'array':
            return self.deco({'type': 'array', 'items': self.gen(depth + 1, ns)}, named=False)
        if c == 'map':
            return self.deco({'type': 'map', 'values': self.gen(depth + 1, ns)}, named=False)
        if c == 'enum':
            return self.gen_enum(ns)
        if c == 'fixed':
            return self.gen_fixed(ns)
        if c == 'union':
            return self.gen_union(depth, ns)
        if c == 'ref':
            full, _k = r.choice(self.defined)
            sp = self.ref_to(full, ns)
            return sp if sp is not None else 'int'
        if c == 'rec':
            full = r.choice(self.open_records)
            sp = self.ref_to(full, ns)
            if sp is None:
                return 'long'
            k = r.random()
            if k < 0.5:
                return ['null', sp]
            if k < 0.75:
                return {'type': 'array', 'items': sp}
            return {'type': 'map', 'values': sp}
        raise AssertionError(c)

    def gen_logical(self, ns):
        r = self.r
        c = r.random()
        if c < 0.45:
            lt, base = r.choice(LOGICAL_SIMPLE)
            obj = {'type': base, 'logicalType': lt}
        elif c < 0.65:
            if r.random() < 0.5:
                prec = r.randint(1, 30)
                obj = {'type': 'bytes', 'logicalType': 'decimal', 'precision': prec, 'scale': r.randint(0, prec)}
            else:
                size = r.randint(1, 16)
                import math
                maxp = int(math.floor(math.log10(2.0 ** (8 * size - 1) - 1)))
                prec = r.randint(1, max(1, maxp))
                frag, _ = self.name_obj('Dec', ns)
                obj = dict(type='fixed', size=size, logicalType='decimal', precision=prec, scale=r.randint(0, prec), **frag)
                self.defined_logical(frag, ns)
        elif c < 0.75:
            obj = {'type': 'bytes', 'logicalType': 'big-decimal'}
        elif c < 0.93:
            k = r.random()
            if k < 0.5:
                obj = {'type': 'string', 'logicalType': 'uuid'}
            elif k < 0.8:
                frag, _ = self.name_obj('Uu', ns)
                obj = dict(type='fixed', size=16, logicalType='uuid', **frag)
                self.defined_logical(frag, ns)
            else:
                obj = {'type': 'bytes', 'logicalType': 'uuid'}
        else:
            frag, _ = self.name_obj('Dur', ns)
            obj = dict(type='fixed', size=12, logicalType='duration', **frag)
            self.defined_logical(frag, ns)
        if self.o.attr_on_logical:
            self.deco(obj, named=False)
        return obj

    def defined_logical(self, frag, ns):
        # logical types on a named fixed define that name too, but references to it are a dark
        # corner (reference yields the logical or the bare fixed?) -- never referenced by the generator
        pass

    def gen_enum(self, ns):
        r = self.r
        frag, ens = self.name_obj('En', ns)
        syms = [self.fresh('S') for _ in range(r.randint(1, 5))]
        obj = dict(type='enum', symbols=syms, **frag)
        if self.o.defaults and r.random() < 0.3:
            obj['default'] = r.choice(syms)
        self.deco(obj)
        full = self.full(frag, ens if 'namespace' in frag or '.' in frag['name'] else ns)
        self.defined.append((full, 'enum'))
        self.defs[full] = (obj, None)
        return obj

    def gen_fixed(self, ns):
        r = self.r
        frag, fns = self.name_obj('Fx', ns)
        obj = dict(type='fixed', size=r.choice([0, 1, 2, 7, 16, 33]), **frag)
        self.deco(obj)
        full = self.full(frag, fns if 'namespace' in frag or '.' in frag['name'] else ns)
        self.defined.append((full, 'fixed'))
        self.defs[full] = (obj, None)
        return obj

    def gen_record(self, depth, ns):
        r = self.r
        frag, rns = self.name_obj('Rec', ns)
        if not ('namespace' in frag or '.' in frag['name']):
            rns = ns
        full = self.full(frag, rns)
        self.open_records.append(full)
        fields = []
        for _ in range(r.randint(0 if depth > 0 else 1, self.o.fanout)):
            ft = self.gen(depth + 1, rns)
            f = {'name': self.fresh('f'), 'type': ft}
            if self.o.decorations:
                if r.random() < 0.3:
                    f['doc'] = r.choice(DOCS)
                if r.random() < 0.2:
                    f['aliases'] = [self.fresh('fa')]
                if r.random() < 0.2:
                    f['order'] = r.choice(['ascending', 'descending', 'ignore'])
                if r.random() < 0.3:
                    f[r.choice(['fattr', 'x-y'])] = r.choice([0, 'z', [None], {'a': 'b'}])
            if self.o.defaults and r.random() < 0.5:
                try:
                    f['default'] = self.default_for(ft, rns, 0)
                except NoDefault:
                    pass
            fields.append(f)
        self.open_records.pop()
        obj = dict(type='record', fields=fields, **frag)
        self.deco(obj)
        self.defined.append((full, 'record'))
        self.defs[full] = (obj, rns)
        return obj

    def default_for(self, t, ns, depth):
        """a JSON default conforming to type json t (union: first branch), per the spec's table"""
        r = self.r
        if depth > 4:
            raise NoDefault()
        if isinstance(t, list):
            return self.default_for(t[0], ns, depth + 1)
        if isinstance(t, str):
            if t in PRIMS:
                return self.default_prim(t)
            full = t if '.' in t else ((ns + '.' + t) if ns else t)
            if full not in self.defs:
                raise NoDefault()      # reference to a record still being defined (recursion)
            d, dns = self.defs[full]
            return self.default_named(d, dns, depth)
        if 'logicalType' in t:
            raise NoDefault()
        tt = t['type']
        if tt in ('record', 'enum', 'fixed'):
            full = self.full(t, ns if not ('namespace' in t or '.' in t['name']) else (t.get('namespace') or None))
            dns = self.defs.get(full, (None, ns))[1]
            return self.default_named(t, dns, depth)
        if tt == 'array':
            return [] if r.random() < 0.5 else [self.default_for(t['items'], ns, depth + 1) for _ in range(r.randint(1, 2))]
        if tt == 'map':
            return {} if r.random() < 0.5 else {'k%d' % i: self.default_for(t['values'], ns, depth + 1) for i in range(r.randint(1, 2))}
        if isinstance(tt, (list, dict)):
            return self.default_for(tt, ns, depth + 1)
        return self.default_for(tt, ns, depth + 1)

    def default_prim(self, p):
        r = self.r
        return {'null': None, 'boolean': r.random() < 0.5, 'int': r.choice([0, -1, 42, 2 ** 31 - 1, -2 ** 31]),
                'long': r.choice([0, -1, 2 ** 40, 2 ** 53, -2 ** 62]), 'float': r.choice([0.0, 1.5, -2.25, 1]),
                'double': r.choice([0.0, 1.5, -2.25, 1e300, 3]), 'bytes': r.choice(['', 'abc', '\u00ff\u0000a']),
                'string': r.choice(['', 'dflt', 'q"\\é'])}[p]

    def default_named(self, d, dns, depth):
        tt = d['type']
        if tt == 'enum':
            return self.r.choice(d['symbols'])
        if tt == 'fixed':
            return ''.join(self.r.choice(['a', '\u00ff', '\u0000', 'Z']) for _ in range(d['size']))
        out = {}
        for f in d['fields']:
            out[f['name']] = self.default_for(f['type'], dns, depth + 1)
        return out

    def gen_union(self, depth, ns):
        r = self.r
        n = r.randint(1, 4)
        branches = []
        kinds = set()
        tries = 0
        while len(branches) < n and tries < 20:
            tries += 1
            mark = len(self.defined)
            b = self.gen(depth + 1, ns, in_union=True)
            kd = self.union_kind(b)
            if kd is None or kd in kinds:
                del self.defined[mark:]     # discarded branch: its definitions never reach the document
                continue
            kinds.add(kd)
            branches.append(b)
        if not branches:
            branches = ['null']
        if r.random() < 0.4 and 'null' not in kinds:
            branches.insert(r.randint(0, len(branches)), 'null')
        return branches

    def union_kind(self, b):
        """union uniqueness key: unnamed types by kind (logical types count as their base type),
        named types by name; None = not allowed in a union (nested union) or unknowable (ref)."""
        if isinstance(b, list):
            return None
        if isinstance(b, str):
            if b in PRIMS:
                return b
            # a reference: named => unique by name; to stay safe only allow one ref per union to a given name
            return 'named:' + b.rpartition('.')[2]
        t = b.get('type')
        if t in ('record', 'enum', 'fixed'):
            if not self.o.named_in_union:
                return None
            if 'logicalType' in b:
                return None       # named logical types inside unions: avoided (kind ambiguity)
            return 'named:' + b['name'].rpartition('.')[2]
        if isinstance(t, (list, dict)):
            return None
        if t in PRIMS or t in ('array', 'map'):
            return t
        return None


def generate(seed, opts=None, count=1):
    out = []
    for i in range(count):
        rng = random.Random('%s/%d' % (seed, i))
        g = SchemaGen(rng, opts)
        j = g.gen(0, None)
        out.append(j)
    return out


def to_text(j, rng=None):
    if rng is None or rng.random() < 0.7:
        return json.dumps(j)
    return json.dumps(j, indent=rng.choice([1, 2, None]), ensure_ascii=rng.random() < 0.5)
