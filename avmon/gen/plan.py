"""tagged value + node model -> "serde plan" (the sequence of serde data-model calls a Rust type
shaped like the schema would make, per the library's documented mapping)."""
import struct
from ..ref.names import deref
from ..ref.avrobin import enc_long, signed_be


def plan_of(node, env, v):
    node = deref(node, env)
    k = node['k']
    lg = node.get('logical', {}).get('t')
    if lg == 'decimal':
        b = bytes.fromhex(v['dec'])
        if k == 'fixed':
            n = int.from_bytes(b, 'big', signed=True) if b else 0
            b = signed_be(n, node['size'])
        return ['bytes', b.hex()]
    if lg == 'big-decimal':
        inner = signed_be(int(v['bigdec'][0]))
        return ['bytes', (enc_long(len(inner)) + inner + enc_long(v['bigdec'][1])).hex()]
    if lg == 'uuid':
        h = v['uuid']
        if k == 'string':
            return ['str', '%s-%s-%s-%s-%s' % (h[0:8], h[8:12], h[12:16], h[16:20], h[20:32])]
        return ['bytes', h]
    if lg == 'duration':
        return ['bytes', struct.pack('<III', *v['dur']).hex()]
    if lg == 'date':
        return ['i32', v['date']]
    if lg == 'time-millis':
        return ['i32', v['tms']]
    if lg is not None:
        return ['i64', list(v.values())[0]]
    if k == 'null':
        return ['unit']
    if k == 'boolean':
        return ['bool', v['b']]
    if k == 'int':
        return ['i32', v['i']]
    if k == 'long':
        return ['i64', v['l']]
    if k == 'float':
        return ['f32', v['f']]
    if k == 'double':
        return ['f64', v['d']]
    if k == 'bytes':
        return ['bytes', v['B']]
    if k == 'string':
        return ['str', v['s']]
    if k == 'fixed':
        return ['bytes', v['F']]
    if k == 'enum':
        return ['unit_variant', node['name'], v['e'][0], v['e'][1]]
    if k == 'union':
        i, inner = v['u']
        br = node['branches']
        kinds = [deref(b, env)['k'] for b in br]
        if len(br) == 2 and 'null' in kinds and 'logical' not in deref(br[kinds.index('null')], env):
            if kinds[i] == 'null':
                return ['none']
            return ['some', plan_of(br[i], env, inner)]
        return ['newtype_variant', 'U', i, 'v%d' % i, plan_of(br[i], env, inner)]
    if k == 'array':
        return ['seq', [plan_of(node['items'], env, x) for x in v['a']]]
    if k == 'map':
        return ['map', [[['str', kk], plan_of(node['values'], env, x)] for kk, x in v['m']]]
    if k == 'record':
        vals = dict((n, x) for n, x in v['r'])
        return ['struct', node['name'], [[f['name'], plan_of(f['type'], env, vals[f['name']])] for f in node['fields']]]
    raise ValueError(k)
