"""Schema evolution steps: W (json) -> R (json) with labels; each label says whether the
specification calls the step always safe for reading ("safe") or not."""
import copy
import json

PRIMS = ('null', 'boolean', 'int', 'long', 'float', 'double', 'bytes', 'string')
PROMO = {'int': ['long', 'float', 'double'], 'long': ['float', 'double'], 'float': ['double'], 'string': ['bytes'], 'bytes': ['string']}
NARROW = {'long': ['int'], 'double': ['float', 'long'], 'float': ['int'], 'string': ['int'], 'boolean': ['int']}

DEFAULTS = [('int', 7), ('long', 2 ** 40), ('string', 'dflt'), ('boolean', True), ('double', 1.5), ('float', -2.5), ('bytes', 'ÿ\u0000a'), ('null', None),
            (['null', 'int'], None), (['string', 'null'], 's'), ({'type': 'array', 'items': 'long'}, [1, 2]), ({'type': 'map', 'values': 'string'}, {'k': 'v'}),
            ({'type': 'enum', 'name': 'NewE', 'symbols': ['P', 'Q']}, 'Q'), ({'type': 'fixed', 'name': 'NewF', 'size': 3}, 'abc'),
            ({'type': 'record', 'name': 'NewR', 'fields': [{'name': 'x', 'type': 'int'}, {'name': 'y', 'type': ['null', 'string'], 'default': None}]}, {'x': 1}),
            ({'type': 'int', 'logicalType': 'date'}, 19000), ({'type': 'long', 'logicalType': 'timestamp-millis'}, 1700000000000)]


def type_sites(j, path=()):
    """paths to every schema position (type expressions)"""
    out = [path]
    if isinstance(j, list):
        for i, b in enumerate(j):
            out += type_sites(b, path + (i,))
    elif isinstance(j, dict):
        t = j.get('type')
        if isinstance(t, (dict, list)):
            out += type_sites(t, path + ('type',))
        if t == 'record':
            for i, f in enumerate(j.get('fields', [])):
                out += type_sites(f['type'], path + ('fields', i, 'type'))
        if t == 'array':
            out += type_sites(j['items'], path + ('items',))
        if t == 'map':
            out += type_sites(j['values'], path + ('values',))
    return out


def get(j, p):
    for k in p:
        j = j[k]
    return j


def setp(j, p, v):
    if not p:
        return v
    get(j, p[:-1])[p[-1]] = v
    return j


def prim_of(x):
    if isinstance(x, str) and x in PRIMS:
        return x
    if isinstance(x, dict) and x.get('type') in PRIMS and 'logicalType' not in x and set(x.keys()) <= {'type'}:
        return x['type']
    return None


def in_union(path, j):
    return len(path) > 0 and isinstance(path[-1], int) and isinstance(get(j, path[:-1]), list)


KINDS = ['promote', 'add-field-default', 'remove-field', 'reorder-fields', 'rename-field-alias', 'enum-add-symbol', 'enum-remove-symbol', 'enum-reorder',
         'union-add-branch', 'union-remove-branch', 'union-reorder', 'wrap-in-union', 'unwrap-union', 'rename-type-alias', 'narrow', 'add-field-no-default', 'kind-change']


def evolve_once(j, rng, counter, force_kind=None):
    """returns (new json, label, safe) or None"""
    j = copy.deepcopy(j)
    sites = type_sites(j)
    rng.shuffle(sites)
    kinds = ['promote', 'add-field-default', 'remove-field', 'reorder-fields', 'rename-field-alias', 'enum-add-symbol', 'enum-remove-symbol', 'enum-reorder',
             'union-add-branch', 'union-remove-branch', 'union-reorder', 'wrap-in-union', 'unwrap-union', 'rename-type-alias', 'narrow', 'add-field-no-default', 'kind-change']
    rng.shuffle(kinds)
    if force_kind is not None:
        kinds = [force_kind]
    for kind in kinds:
        for p in sites:
            x = get(j, p)
            pr = prim_of(x)
            if kind == 'promote' and pr in PROMO:
                to = rng.choice(PROMO[pr])
                if in_union(p, j) and to in [prim_of(b) for b in get(j, p[:-1])]:
                    continue
                return setp(j, p, to), 'promote:%s->%s' % (pr, to), True
            if kind == 'narrow' and pr in NARROW:
                to = rng.choice(NARROW[pr])
                if in_union(p, j) and to in [prim_of(b) for b in get(j, p[:-1])]:
                    continue
                return setp(j, p, to), 'narrow:%s->%s' % (pr, to), False
            if kind == 'kind-change' and pr in ('int', 'string', 'boolean') and not in_union(p, j):
                return setp(j, p, {'type': 'array', 'items': pr}), 'kind-change:%s->array' % pr, False
            if isinstance(x, dict) and x.get('type') == 'record':
                fs = x['fields']
                if kind == 'add-field-default':
                    t, d = rng.choice(DEFAULTS)
                    t = copy.deepcopy(t)
                    counter[0] += 1
                    if isinstance(t, dict) and 'name' in t:
                        t['name'] = '%s%d' % (t['name'], counter[0])
                    fs.insert(rng.randint(0, len(fs)), {'name': 'added%d' % counter[0], 'type': t, 'default': d})
                    return j, 'add-field-default:%s' % (t if isinstance(t, str) else (t.get('logicalType') or t.get('type')) if isinstance(t, dict) else 'union'), True
                if kind == 'add-field-no-default':
                    counter[0] += 1
                    fs.append({'name': 'added%d' % counter[0], 'type': 'int'})
                    return j, 'add-field-no-default', False
                if kind == 'remove-field' and fs:
                    # removing a field that defines a named type referenced later would dangle: only remove fields of primitive/inline-unnamed type
                    cands = [i for i, f in enumerate(fs) if '"name"' not in json.dumps(f['type'])]
                    if cands:
                        del fs[rng.choice(cands)]
                        return j, 'remove-field', True
                if kind == 'reorder-fields' and len(fs) > 1 and all('"name"' not in json.dumps(f['type']) or True for f in fs):
                    # keep definitions before references: only reorder when no field type defines or references named types
                    if all('"name"' not in json.dumps(f['type']) and not has_ref(f['type']) for f in fs):
                        fs.reverse()
                        return j, 'reorder-fields', True
                if kind == 'rename-field-alias' and fs:
                    f = rng.choice(fs)
                    counter[0] += 1
                    old = f['name']
                    f['name'] = 'renamed%d' % counter[0]
                    f['aliases'] = [old]
                    return j, 'rename-field-alias', None
                if kind == 'rename-type-alias' and not is_referenced(j, x):
                    counter[0] += 1
                    old = x['name']
                    x['name'] = 'Renamed%d' % counter[0]
                    x.pop('namespace', None)
                    x['aliases'] = [old if '.' in old else old]
                    return j, 'rename-type-alias:record', None
            if isinstance(x, dict) and x.get('type') == 'enum' and 'logicalType' not in x:
                syms = x['symbols']
                if kind == 'enum-add-symbol':
                    counter[0] += 1
                    syms.insert(rng.choice([0, len(syms)]), 'ADDED%d' % counter[0])
                    return j, 'enum-add-symbol', True
                if kind == 'enum-remove-symbol' and len(syms) > 1:
                    gone = syms.pop(rng.randrange(len(syms)))
                    if x.get('default') == gone:
                        x.pop('default')
                    if rng.random() < 0.5:
                        x['default'] = syms[0]
                        return j, 'enum-remove-symbol(reader-default)', None
                    x.pop('default', None)
                    return j, 'enum-remove-symbol(no-default)', False
                if kind == 'enum-reorder' and len(syms) > 1:
                    syms.reverse()
                    return j, 'enum-reorder', None
            if isinstance(x, list):
                if kind == 'union-add-branch':
                    have = [prim_of(b) for b in x]
                    cand = [t for t in ('boolean', 'string', 'double', 'null', 'long') if t not in have and not any(isinstance(b, dict) and b.get('type') == t for b in x)]
                    if cand:
                        x.insert(rng.choice([0, len(x)]), rng.choice(cand))
                        return j, 'union-add-branch', True
                if kind == 'union-remove-branch' and len(x) > 1:
                    cands = [i for i, b in enumerate(x) if '"name"' not in json.dumps(b)]
                    if cands:
                        del x[rng.choice(cands)]
                        return j, 'union-remove-branch', False
                if kind == 'union-reorder' and len(x) > 1 and all(not has_ref(b) for b in x):
                    x.reverse()
                    return j, 'union-reorder', None
                if kind == 'unwrap-union' and len(x) == 1 and not in_union(p, j):
                    return setp(j, p, x[0]), 'unwrap-union', None
            if kind == 'wrap-in-union' and not isinstance(x, list) and not in_union(p, j) and (pr is not None):
                return setp(j, p, rng.choice([[x]] if pr == 'null' else [[x], ['null', x], [x, 'null']])), 'wrap-in-union', True
    return None


def has_ref(t):
    if isinstance(t, str):
        return t not in PRIMS
    if isinstance(t, list):
        return any(has_ref(b) for b in t)
    if isinstance(t, dict):
        tt = t.get('type')
        if isinstance(tt, str) and tt not in PRIMS and tt not in ('record', 'enum', 'fixed', 'array', 'map'):
            return True
        return any(has_ref(t[k]) for k in ('type', 'items', 'values') if k in t and not isinstance(t[k], str)) or \
            any(has_ref(t[k]) for k in ('items', 'values') if isinstance(t.get(k), str)) or \
            any(has_ref(f['type']) for f in t.get('fields', []))
    return False


def is_referenced(j, x):
    n = x.get('name', '')
    short = n.rpartition('.')[2]
    text = json.dumps(j)
    return text.count('"%s"' % short) + text.count('.%s"' % short) > 1


def evolve(j, rng, max_steps=3, only=None):
    """returns (R json, [labels], all_safe) or None"""
    counter = [0]
    labels = []
    safe = True
    cur = j
    from ..ref import names
    for _ in range(rng.choice([1, 1, 1, 2, 3][:max_steps + 2])):
        r = None
        for _try in range(6):
            r = evolve_once(cur, rng, counter)
            if r is None:
                break
            try:
                names.parse(r[0])       # the evolved schema must itself be well formed
                break
            except names.SchemaError:
                r = None
        if r is None:
            break
        cur, label, s = r
        labels.append(label)
        if s is False:
            safe = False
        elif s is None and safe is True:
            safe = None
    if not labels:
        return None
    return cur, labels, safe
