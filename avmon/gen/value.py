"""Seeded generator of conforming values in the library's canonical representation (tagged trees)."""
import struct
from ..ref.names import deref

INT_B = [0, -1, 1, 63, 64, -64, -65, 8191, 8192, -8192, -8193, 1048575, 1048576, -1048576, -1048577,
         134217727, 134217728, -134217728, -134217729, 2 ** 31 - 1, -2 ** 31]
LONG_B = INT_B + [2 ** 31, -2 ** 31 - 1, 2 ** 34 - 1, 2 ** 34, -2 ** 34, -2 ** 34 - 1, 2 ** 41 - 1, 2 ** 41, -2 ** 41 - 1,
                  2 ** 48 - 1, 2 ** 48, -2 ** 48 - 1, 2 ** 55 - 1, 2 ** 55, -2 ** 55, -2 ** 55 - 1,
                  2 ** 62 - 1, 2 ** 62, -2 ** 62, -2 ** 62 - 1, 2 ** 63 - 1, -2 ** 63]
F32_B = [0x00000000, 0x80000000, 0x7f800000, 0xff800000, 0x7fc00000, 0x7fc00001, 0xffc00000, 0x7f800001,
         0x00000001, 0x3f800000, 0x7f7fffff, 0x00800000]
F64_B = [0x0, 0x8000000000000000, 0x7ff0000000000000, 0xfff0000000000000, 0x7ff8000000000000,
         0x7ff8000000000001, 0xfff8000000000000, 0x7ff0000000000001, 0x1, 0x3ff0000000000000,
         0x7fefffffffffffff, 0x0010000000000000]
STR_B = ['', 'a', 'hello', 'é', '中文', '\U0001F600', 'q"\\\n\t', 'x' * 63, 'y' * 64, 'z' * 200, '\x00', 'ÿĀ']


class ValueGen:
    def __init__(self, rng, env, boundary_bias=0.5, max_depth=12, max_len=4, max_map=None):
        self.r = rng
        self.env = env
        self.bias = boundary_bias
        self.max_depth = max_depth
        self.max_len = max_len
        self.max_map = max_map      # cap on map entries (1 = deterministic bytes: no HashMap order)

    def pick_int(self, table, lo, hi):
        r = self.r
        if r.random() < self.bias:
            return r.choice(table)
        c = r.random()
        if c < 0.4:
            return r.randint(-200, 200)
        return r.randint(lo, hi)

    def rbytes(self, n):
        return bytes(self.r.getrandbits(8) for _ in range(n))

    def gen(self, node, depth=0):
        r = self.r
        node = deref(node, self.env)
        k = node['k']
        lg = node.get('logical', {}).get('t')
        if lg == 'decimal':
            prec = node['logical']['precision']
            if k == 'fixed':
                size = node['size']
                lim = min(10 ** prec - 1, 2 ** (8 * size - 1) - 1)
                c = r.random()
                n = r.choice([0, 1, -1, lim, -lim, -(2 ** (8 * size - 1)) if 2 ** (8 * size - 1) <= 10 ** prec else -lim]) if c < 0.5 else r.randint(-lim, lim)
                return {'dec': n.to_bytes(size, 'big', signed=True).hex()}
            lim = 10 ** prec - 1
            n = r.choice([0, 1, -1, 127, 128, -128, -129, 255, 256, lim, -lim]) if r.random() < 0.5 else r.randint(-lim, lim)
            if abs(n) > lim:
                n = lim
            ln = 1
            while True:
                try:
                    b = n.to_bytes(ln, 'big', signed=True)
                    break
                except OverflowError:
                    ln += 1
            if r.random() < 0.2:           # sign-extended (non-minimal) spelling is legal data
                b = (b'\xff' if n < 0 else b'\x00') * r.randint(1, 3) + b
            return {'dec': b.hex()}
        if lg == 'big-decimal':
            n = r.choice([0, 1, -1, 127, 128, -128, -129, 10 ** 30, -10 ** 30 + 7]) if r.random() < 0.5 else r.randint(-10 ** 12, 10 ** 12)
            return {'bigdec': [str(n), r.choice([0, 1, 2, 5, 18, 40, -3, 63, 64, 8191, 8192, -8193, 2 ** 31 - 1, 2 ** 31, -2 ** 31, -2 ** 31 - 1, 2 ** 63 - 1, -2 ** 63])]}
        if lg == 'uuid':
            return {'uuid': r.choice([bytes(16), b'\xff' * 16, self.rbytes(16), self.rbytes(16)]).hex()}
        if lg == 'duration':
            return {'dur': [r.choice([0, 1, 2 ** 32 - 1, r.getrandbits(32)]) for _ in range(3)]}
        if lg == 'date':
            return {'date': self.pick_int(INT_B, -2 ** 31, 2 ** 31 - 1)}
        if lg == 'time-millis':
            return {'tms': self.pick_int(INT_B, -2 ** 31, 2 ** 31 - 1)}
        if lg is not None:
            tag = {'time-micros': 'tus', 'timestamp-millis': 'tsms', 'timestamp-micros': 'tsus',
                   'timestamp-nanos': 'tsns', 'local-timestamp-millis': 'ltsms',
                   'local-timestamp-micros': 'ltsus', 'local-timestamp-nanos': 'ltsns'}[lg]
            return {tag: self.pick_int(LONG_B, -2 ** 63, 2 ** 63 - 1)}
        if k == 'null':
            return None
        if k == 'boolean':
            return {'b': r.random() < 0.5}
        if k == 'int':
            return {'i': self.pick_int(INT_B, -2 ** 31, 2 ** 31 - 1)}
        if k == 'long':
            return {'l': self.pick_int(LONG_B, -2 ** 63, 2 ** 63 - 1)}
        if k == 'float':
            b = r.choice(F32_B) if r.random() < self.bias else r.getrandbits(32)
            return {'f': '0x%08x' % b}
        if k == 'double':
            b = r.choice(F64_B) if r.random() < self.bias else r.getrandbits(64)
            return {'d': '0x%016x' % b}
        if k == 'bytes':
            n = r.choice([0, 0, 1, 2, 63, 64, 65, 300]) if r.random() < self.bias else r.randint(0, 20)
            return {'B': self.rbytes(n).hex()}
        if k == 'string':
            if r.random() < self.bias:
                return {'s': r.choice(STR_B)}
            return {'s': ''.join(r.choice('abcdefgh éß中\U0001F600"\\') for _ in range(r.randint(0, 12)))}
        if k == 'fixed':
            return {'F': self.rbytes(node['size']).hex(), 'n': node['size']}
        if k == 'enum':
            i = r.randrange(len(node['symbols']))
            return {'e': [i, node['symbols'][i]]}
        if k == 'union':
            br = node['branches']
            if depth >= self.max_depth:
                # prefer a non-recursive branch
                order = sorted(range(len(br)), key=lambda i: self.cost(br[i]))
                i = order[0]
            else:
                i = r.randrange(len(br))
            return {'u': [i, self.gen(br[i], depth + 1)]}
        if k == 'record':
            return {'r': [[f['name'], self.gen(f['type'], depth + 1)] for f in node['fields']]}
        if k == 'array':
            n = 0 if depth >= self.max_depth else r.choice([0, 1, 2, self.max_len])
            return {'a': [self.gen(node['items'], depth + 1) for _ in range(n)]}
        if k == 'map':
            n = 0 if depth >= self.max_depth else r.choice([0, 1, 2, self.max_len])
            if self.max_map is not None:
                n = min(n, self.max_map)
            keys = set()
            while len(keys) < n:
                keys.add(r.choice(['', 'k', 'key', 'é', 'a b', 'K']) + str(r.randint(0, 99)) if r.random() < 0.8 else r.choice(STR_B[:7]))
            return {'m': [[kk, self.gen(node['values'], depth + 1)] for kk in sorted(keys)]}
        raise ValueError(k)

    def cost(self, node):
        node = deref(node, self.env)
        k = node['k']
        if k in ('record',):
            return 5
        if k in ('array', 'map'):
            return 1
        if k == 'union':
            return 3
        return 0


def nontrivial(v):
    """a value tree that contains a non-null leaf"""
    if v is None:
        return False
    if isinstance(v, dict):
        for k, x in v.items():
            if k in ('a',):
                if any(nontrivial(i) for i in x):
                    return True
            elif k in ('m', 'r'):
                if any(nontrivial(i[1]) for i in x):
                    return True
            elif k == 'u':
                if nontrivial(x[1]):
                    return True
            else:
                return True
        return False
    return True


def shape(v):
    """value-shape signature: structure with leaf tags only"""
    if v is None:
        return 'n'
    if isinstance(v, dict):
        for k, x in v.items():
            if k == 'a':
                return 'a[%s]' % ','.join(sorted(set(shape(i) for i in x)))
            if k == 'm':
                return 'm[%s]' % ','.join(sorted(set(shape(i[1]) for i in x)))
            if k == 'r':
                return 'r(%s)' % ','.join(shape(i[1]) for i in x)
            if k == 'u':
                return 'u%d:%s' % (x[0], shape(x[1]))
            if k in ('i', 'l', 'date', 'tms', 'tus', 'tsms', 'tsus', 'tsns', 'ltsms', 'ltsus', 'ltsns'):
                from ..ref.avrobin import enc_long
                return '%s%d' % (k, len(enc_long(x)))
            if k in ('B', 's'):
                return '%s%d' % (k, min(len(x), 3))
            if k == 'e':
                return 'e%d' % x[0]
            if k != 'n':
                return k
    return '?'
