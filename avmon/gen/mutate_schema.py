"""Mutations of valid schema texts + arbitrary strings / arbitrary JSON for parser totality."""
import copy
import json

JSON_KINDS = [None, True, False, 0, -1, 1.5, 'str', '', [], {}, ['null'], {'type': 'int'}, 2 ** 31, 2 ** 63, 2 ** 64 - 1, -2 ** 63 - 1]
BAD_NAMES = ['', '1abc', 'a-b', 'a..b', '.a', 'a.', 'é', 'a b', 'int', 'record', 'null', 'a.1b', '_', 'a.b.c.d', 'x' * 300]
RAW_NUMBERS = ['1e400', '-1e400', '1.5', '-0', '0.0', '1e2', '18446744073709551615', '18446744073709551616',
               '9223372036854775808', '-9223372036854775809', '4294967296', '2147483648', '-1', '0', '1E+2', '0.1e1']


def paths(j, p=()):
    """all paths to dict / list containers and to dict values"""
    out = []
    if isinstance(j, dict):
        out.append(p)
        for k, v in j.items():
            out += paths(v, p + (k,))
    elif isinstance(j, list):
        out.append(p)
        for i, v in enumerate(j):
            out += paths(v, p + (i,))
    return out


def get(j, p):
    for k in p:
        j = j[k]
    return j


def setp(j, p, v):
    if not p:
        return v
    get(j, p[:-1])[p[-1]] = v
    return j


def mutate(j, rng):
    """returns (mutation name, text)"""
    j = copy.deepcopy(j)
    ps = paths(j)
    dict_paths = [p for p in ps if isinstance(get(j, p), dict)]
    c = rng.random()
    raw = None
    name = 'none'
    if c < 0.18 and dict_paths:
        p = rng.choice(dict_paths)
        d = get(j, p)
        if d:
            k = rng.choice(list(d.keys()))
            del d[k]
            name = 'drop-key:' + k
    elif c < 0.40 and dict_paths:
        p = rng.choice(dict_paths)
        d = get(j, p)
        if d:
            k = rng.choice(list(d.keys()))
            d[k] = rng.choice(JSON_KINDS)
            name = 'retype:' + k
    elif c < 0.52 and dict_paths:
        # extreme / odd numbers for numeric attributes (raw text, beyond what json.dumps can express)
        cands = [p for p in dict_paths if any(k in get(j, p) for k in ('size', 'precision', 'scale'))]
        if cands:
            p = rng.choice(cands)
            d = get(j, p)
            k = rng.choice([k for k in ('size', 'precision', 'scale') if k in d])
            d[k] = '@@RAW@@'
            raw = rng.choice(RAW_NUMBERS)
            name = 'number:%s=%s' % (k, raw)
        else:
            j = {'type': 'fixed', 'name': 'Fz', 'size': '@@RAW@@'}
            raw = rng.choice(RAW_NUMBERS)
            name = 'number:size=%s' % raw
    elif c < 0.62 and dict_paths:
        cands = [p for p in dict_paths if 'name' in get(j, p)]
        if cands:
            d = get(j, rng.choice(cands))
            k = rng.choice(['name', 'namespace']) if 'fields' in d or 'symbols' in d or 'size' in d else 'name'
            d[k] = rng.choice(BAD_NAMES)
            name = 'bad-' + k
    elif c < 0.70:
        cands = [p for p in dict_paths if isinstance(get(j, p).get('fields'), list) and get(j, p)['fields']]
        if cands:
            d = get(j, rng.choice(cands))
            k = rng.random()
            if k < 0.2:
                d['fields'].append(copy.deepcopy(rng.choice(d['fields'])))
                name = 'duplicate-field'
            elif k < 0.4:
                # a duplicate hidden behind another field's alias of the same name
                f0 = rng.choice([f for f in d['fields'] if isinstance(f, dict)] or [{'name': 'a', 'type': 'int'}])
                d['fields'].append({'name': 'zz_alias_holder', 'type': 'int', 'aliases': [f0.get('name', 'a')]})
                d['fields'].append(copy.deepcopy(f0))
                name = 'duplicate-field-behind-alias'
            elif k < 0.7:
                d['fields'].insert(rng.randint(0, len(d['fields'])), rng.choice([1, 'x', None, [], True]))
                name = 'non-object-field'
            else:
                f = rng.choice(d['fields'])
                if isinstance(f, dict):
                    f['default'] = rng.choice(JSON_KINDS + ['Z', {'a': 1}, [1, 'x']])
                    name = 'wrong-default'
    elif c < 0.76:
        cands = [p for p in dict_paths if isinstance(get(j, p).get('symbols'), list)]
        if cands:
            d = get(j, rng.choice(cands))
            k = rng.random()
            if k < 0.3 and d['symbols']:
                d['symbols'].append(d['symbols'][0])
                name = 'duplicate-symbol'
            elif k < 0.6:
                d['symbols'].append(rng.choice(['1x', 'a-b', '', 'é', 5, None]))
                name = 'bad-symbol'
            elif k < 0.8:
                d['default'] = rng.choice(['NotASymbol', 5, None, ''])
                name = 'enum-default'
            else:
                d['symbols'] = rng.choice([[], 'A', {'A': 1}, None])
                name = 'symbols-kind'
    elif c < 0.84:
        list_paths = [p for p in ps if isinstance(get(j, p), list) and (not p or p[-1] in ('type', 'items', 'values'))]
        if list_paths:
            u = get(j, rng.choice(list_paths))
            k = rng.random()
            if k < 0.4:
                u.append(['null', 'int'] if rng.random() < 0.5 else list(u))
                name = 'nested-union'
            elif k < 0.8 and u:
                u.append(copy.deepcopy(u[0]) if not isinstance(u[0], dict) or 'name' not in u[0] else u[0].get('name'))
                name = 'duplicate-union-branch'
            else:
                u.append(rng.choice([{'type': 'int', 'logicalType': 'date'}, 'int', {'type': 'int'}]))
                u.append('int')
                name = 'duplicate-union-kind-logical'
        else:
            j = [j, rng.choice([['null'], 'null'])]
            name = 'wrap-in-union'
    elif c < 0.92:
        # dangling / forward references
        cands = [p for p in ps if p and p[-1] in ('type', 'items', 'values') and isinstance(get(j, p), str)]
        if cands:
            p = rng.choice(cands)
            setp(j, p, rng.choice(['Missing', 'a.b.Missing', 'Rec1', 'bool', 'integer', 'String', '']))
            name = 'dangling-ref'
    else:
        # duplicate a whole named definition somewhere else
        cands = [p for p in dict_paths if get(j, p).get('type') in ('record', 'enum', 'fixed')]
        if cands:
            d = copy.deepcopy(get(j, rng.choice(cands)))
            j = [j, d] if not isinstance(j, list) else j + [d]
            name = 'duplicate-definition'
    text = json.dumps(j)
    if raw is not None:
        text = text.replace('"@@RAW@@"', raw)
    if rng.random() < 0.05:
        # duplicate JSON key at text level
        text = text.replace('{"', '{"type": "int", "', 1)
        name += '+dupkey'
    return name, text


def arbitrary_text(rng):
    c = rng.random()
    if c < 0.3:
        return ''.join(rng.choice('{}[]":,\\ ntrue0123456789.eE-+falsé\x00') for _ in range(rng.randint(0, 40)))
    if c < 0.5:
        return rng.choice(['', ' ', 'null', 'true', '1', '1.5', '"', '""', '"int"', '"int', 'int', '[]', '{}', '[[]]', '[[[["int"]]]]', '{"type":}', '{"type":"record"}',
                           '{"type":"enum"}', '{"type":"fixed"}', '{"type":"array"}', '{"type":"map"}', '{"type":["null"]}', '{"type":{"type":{"type":"int"}}}',
                           '﻿"int"', '"int" "long"', '{"type":"int"} x', '"\\ud800"', '{"type":"record","name":"a","fields":null}', '{"type":"record","name":"a","fields":{}}',
                           '{"type":"fixed","name":"a","size":"12"}', '{"type":"fixed","name":"a","size":12.0}', '{"type":"enum","name":"a","symbols":["A"],"default":"A"}',
                           '{"logicalType":"decimal"}', '{"type":"bytes","logicalType":5}', '{"type":"bytes","logicalType":"decimal","precision":"4"}'])
    if c < 0.7:
        depth = rng.choice([1, 5, 50, 120, 127, 128, 129, 200])
        return '[' * depth + '"int"' + ']' * depth if rng.random() < 0.5 else '{"type":' * depth + '"int"' + '}' * depth
    return json.dumps(arbitrary_json(rng, 0))


def arbitrary_json(rng, depth):
    c = rng.random()
    if depth > 4 or c < 0.3:
        return rng.choice([None, True, 0, -1, 1.5, 'int', 'string', 'record', 'enum', 'fixed', 'array', 'map', 'name', 'x', '', 2 ** 64])
    if c < 0.55:
        return [arbitrary_json(rng, depth + 1) for _ in range(rng.randint(0, 3))]
    keys = ['type', 'name', 'namespace', 'fields', 'symbols', 'items', 'values', 'size', 'default', 'aliases', 'doc', 'logicalType', 'precision', 'scale', 'order', 'x']
    return {rng.choice(keys): arbitrary_json(rng, depth + 1) for _ in range(rng.randint(0, 4))}
