"""One-site rewrites of a canonical value: accepted non-canonical spellings and near-miss
rejected forms.  Each site: (path, kind, new sub-value, intent) with intent in
{'accepted', 'rejected'} = what validation is EXPECTED to say (the oracle keys on what it DOES say)."""
import struct

from ..ref.names import deref


def sites(node, env, v, path=(), depth=0):
    node = deref(node, env)
    k = node['k']
    lg = node.get('logical', {}).get('t')
    out = []
    if depth > 12:
        return out
    if k == 'union':
        i, inner = v['u']
        out.append((path, 'bare-in-union:%s' % kind_of(node['branches'][i], env), inner, 'accepted'))
        out.append((path, 'union-index-out-of-range', {'u': [len(node['branches']), inner]}, 'rejected'))
        if len(node['branches']) > 1:
            j = (i + 1) % len(node['branches'])
            if kind_of(node['branches'][j], env) != kind_of(node['branches'][i], env):
                out.append((path, 'union-index-points-at-other-branch', {'u': [j, inner]}, 'rejected?'))
        out += sites(node['branches'][i], env, inner, path + ('u',), depth + 1)
        return out
    if lg in ('date', 'time-millis'):
        out.append((path, 'int-for-%s' % lg, {'i': list(v.values())[0]}, 'accepted'))
        out.append((path, 'long-for-%s' % lg, {'l': list(v.values())[0]}, 'rejected'))
    elif lg in ('time-micros', 'timestamp-millis', 'timestamp-micros', 'timestamp-nanos', 'local-timestamp-millis', 'local-timestamp-micros', 'local-timestamp-nanos'):
        out.append((path, 'long-for-%s' % lg, {'l': list(v.values())[0]}, 'accepted?'))
    elif lg == 'decimal':
        out.append((path, 'bytes-for-decimal@%s' % k, {'B': v['dec']}, 'accepted'))
        out.append((path, 'fixed-for-decimal@%s' % k, {'F': v['dec'], 'n': len(v['dec']) // 2}, 'accepted'))
        if k == 'fixed':
            out.append((path, 'bytes-wrong-length-for-decimal@fixed', {'B': v['dec'] + '00'}, 'accepted?'))
    elif lg == 'uuid':
        h = v['uuid']
        hyph = '%s-%s-%s-%s-%s' % (h[0:8], h[8:12], h[12:16], h[16:20], h[20:32])
        if k == 'string':
            out.append((path, 'string-for-uuid@string', {'s': hyph}, 'accepted'))
            out.append((path, 'string-unhyphenated-for-uuid@string', {'s': h}, 'accepted?'))
            out.append((path, 'string-upper-for-uuid@string', {'s': hyph.upper()}, 'accepted?'))
            out.append((path, 'string-not-a-uuid-for-uuid@string', {'s': 'z' * 36}, 'accepted?'))
            out.append((path, 'string-too-short-for-uuid@string', {'s': 'abc'}, 'rejected'))
        elif k == 'bytes':
            out.append((path, 'bytes-for-uuid@bytes', {'B': h}, 'accepted'))
            out.append((path, 'bytes-wrong-length-for-uuid@bytes', {'B': h + '00'}, 'rejected'))
        else:
            out.append((path, 'fixed-for-uuid@fixed', {'F': h, 'n': 16}, 'accepted'))
            out.append((path, 'bytes-for-uuid@fixed', {'B': h}, 'accepted?'))
            out.append((path, 'fixed-wrong-size-for-uuid@fixed', {'F': h + '00', 'n': 17}, 'rejected'))
    elif lg == 'duration':
        raw = struct.pack('<III', *v['dur']).hex()
        out.append((path, 'fixed-for-duration', {'F': raw, 'n': 12}, 'accepted'))
        out.append((path, 'fixed-wrong-size-for-duration', {'F': raw + '00', 'n': 13}, 'rejected'))
    elif lg == 'big-decimal':
        pass
    elif k == 'long':
        if -2 ** 31 <= v['l'] < 2 ** 31:
            out.append((path, 'int-for-long', {'i': v['l']}, 'accepted'))
    elif k == 'int':
        out.append((path, 'long-for-int', {'l': v['i']}, 'rejected'))
    elif k == 'double':
        out.append((path, 'int-for-double', {'i': 3}, 'rejected'))
        out.append((path, 'long-for-double', {'l': 3}, 'rejected'))
        b = int(v['d'], 16)
        x = struct.unpack('<d', struct.pack('<Q', b))[0]
        if x == x and abs(x) < 3e38:
            try:
                f = struct.unpack('<I', struct.pack('<f', x))[0]
                out.append((path, 'float-for-double', {'f': '0x%08x' % f}, 'accepted'))
            except OverflowError:
                pass
    elif k == 'float' and False:
        pass
    elif k == 'float':
        out.append((path, 'int-for-float', {'i': 3}, 'rejected'))
        out.append((path, 'long-for-float', {'l': 3}, 'rejected'))
        b = int(v['f'], 16)
        x = struct.unpack('<f', struct.pack('<I', b))[0]
        if x == x:
            out.append((path, 'double-for-float', {'d': '0x%016x' % struct.unpack('<Q', struct.pack('<d', x))[0]}, 'rejected'))
    elif k == 'fixed':
        out.append((path, 'bytes-for-fixed', {'B': v['F']}, 'accepted'))
        out.append((path, 'fixed-wrong-size', {'F': v['F'] + '00', 'n': node['size'] + 1}, 'rejected'))
        out.append((path, 'bytes-wrong-length-for-fixed', {'B': v['F'] + '00'}, 'rejected'))
    elif k == 'enum':
        i, s = v['e']
        out.append((path, 'string-for-enum', {'s': s}, 'accepted'))
        out.append((path, 'string-not-a-symbol-for-enum', {'s': s + 'x'}, 'rejected'))
        out.append((path, 'enum-index-out-of-range%s' % ('(enum-has-default)' if node.get('default') is not None else ''), {'e': [len(node['symbols']), s]}, 'rejected?'))
        if len(node['symbols']) > 1:
            out.append((path, 'enum-index-symbol-mismatch', {'e': [(i + 1) % len(node['symbols']), s]}, 'rejected'))
    elif k == 'record':
        fields = v['r']
        if len(fields) > 1:
            out.append((path, 'record-fields-reordered', {'r': list(reversed(fields))}, 'accepted'))
        out.append((path, 'map-for-record', {'m': sorted([list(x) for x in fields], key=lambda p: p[0])}, 'accepted'))
        out.append((path, 'record-extra-field', {'r': fields + [['zz_extra', None]]}, 'rejected'))
        for idx, f in enumerate(node['fields']):
            ft = deref(f['type'], env)
            nullable_first = ft['k'] == 'union' and ft['branches'] and deref(ft['branches'][0], env)['k'] == 'null'
            rest = fields[:idx] + fields[idx + 1:]
            if nullable_first and fields[idx][1] == {'u': [0, None]}:
                out.append((path, 'record-nullable-field-omitted', {'r': rest}, 'accepted'))
            elif not nullable_first:
                out.append((path, 'record-required-field-missing', {'r': rest}, 'rejected'))
                break
        for idx, f in enumerate(node['fields']):
            out += sites(f['type'], env, fields[idx][1], path + (('r', idx),), depth + 1)
    elif k == 'array':
        for idx, x in enumerate(v['a'][:2]):
            out += sites(node['items'], env, x, path + (('a', idx),), depth + 1)
    elif k == 'map':
        for idx, (kk, x) in enumerate(v['m'][:2]):
            out += sites(node['values'], env, x, path + (('m', idx),), depth + 1)
    return out


def kind_of(node, env):
    n = deref(node, env)
    return n.get('logical', {}).get('t') or n['k']


def apply(v, path, new):
    if not path:
        return new
    p = path[0]
    if p == 'u':
        return {'u': [v['u'][0], apply(v['u'][1], path[1:], new)]}
    tagk, idx = p
    if tagk == 'r':
        fs = [list(x) for x in v['r']]
        fs[idx][1] = apply(fs[idx][1], path[1:], new)
        return {'r': fs}
    if tagk == 'a':
        xs = list(v['a'])
        xs[idx] = apply(xs[idx], path[1:], new)
        return {'a': xs}
    if tagk == 'm':
        xs = [list(x) for x in v['m']]
        xs[idx][1] = apply(xs[idx][1], path[1:], new)
        return {'m': xs}
    raise ValueError(p)
