"""Edits of a schema text that the specification calls irrelevant for the Parsing Canonical Form."""
import copy
import json


def walk(j, fn, path=()):
    """calls fn(obj) on every JSON object that is a schema or field object; may mutate in place"""
    if isinstance(j, list):
        for x in j:
            walk(x, fn, path)
    elif isinstance(j, dict):
        fn(j)
        t = j.get('type')
        if isinstance(t, (dict, list)):
            walk(t, fn, path)
        if isinstance(j.get('fields'), list):
            for f in j['fields']:
                if isinstance(f, dict):
                    fn(f)
                    walk(f.get('type'), fn, path)
        if 'items' in j:
            walk(j['items'], fn, path)
        if 'values' in j:
            walk(j['values'], fn, path)


def is_named(o):
    return o.get('type') in ('record', 'enum', 'fixed') and 'name' in o


def is_field(o):
    return 'name' in o and 'type' in o and o.get('type') not in ('record', 'enum', 'fixed') or ('fields' not in o and 'symbols' not in o and 'size' not in o and 'name' in o and 'type' in o)


def shuffle_keys(j, rng):
    if isinstance(j, list):
        return [shuffle_keys(x, rng) for x in j]
    if isinstance(j, dict):
        ks = list(j.keys())
        rng.shuffle(ks)
        return {k: (shuffle_keys(j[k], rng) if k in ('type', 'fields', 'items', 'values') else j[k]) for k in ks}
    return j


def edit_docs(j, rng):
    def fn(o):
        if 'name' in o:
            if 'doc' in o and rng.random() < 0.6:
                del o['doc']
            elif rng.random() < 0.5:
                o['doc'] = rng.choice(['new doc', 'é"\\', ''])
    walk(j, fn)
    return j


def edit_aliases(j, rng):
    n = [0]

    def fn(o):
        if is_named(o) or ('name' in o and 'type' in o):
            if 'aliases' in o and rng.random() < 0.6:
                del o['aliases']
            elif rng.random() < 0.4:
                n[0] += 1
                o['aliases'] = ['ZzAlias%d' % n[0]]
    walk(j, fn)
    return j


def edit_drop_defaults(j, rng):
    def fn(o):
        if 'default' in o and rng.random() < 0.7:
            del o['default']
        if 'order' in o and rng.random() < 0.7:
            del o['order']
        elif 'name' in o and 'type' in o and 'fields' not in o and 'symbols' not in o and 'size' not in o and rng.random() < 0.3:
            o['order'] = rng.choice(['ascending', 'descending', 'ignore'])
    walk(j, fn)
    return j


def edit_attrs(j, rng):
    def fn(o):
        for k in [k for k in o if k in ('custom', 'x-attr', 'meta_1', 'java-class', 'fattr', 'x-y')]:
            if rng.random() < 0.6:
                del o[k]
        if rng.random() < 0.4:
            o['zz-extra'] = rng.choice([1, 'v', [1, {'a': None}], {'b': True}])
    walk(j, fn)
    return j


def edit_name_spelling(j, rng):
    """name:"a.b.X" <-> namespace:"a.b", name:"X" (the full name stays the same)"""
    def fn(o):
        if not is_named(o):
            return
        n = o['name']
        if '.' in n and rng.random() < 0.7:
            ns, _, short = n.rpartition('.')
            o['name'] = short
            o['namespace'] = ns
        elif '.' not in n and isinstance(o.get('namespace'), str) and o['namespace'] and rng.random() < 0.7:
            o['name'] = o['namespace'] + '.' + n
            if rng.random() < 0.5:
                del o['namespace']
    walk(j, fn)
    return j


def edit_prim_form(j, rng):
    """"int" <-> {"type":"int"}"""
    PR = ('null', 'boolean', 'int', 'long', 'float', 'double', 'bytes', 'string')

    def conv(x):
        if isinstance(x, str) and x in PR and rng.random() < 0.5:
            return {'type': x}
        if isinstance(x, dict) and set(x.keys()) == {'type'} and x['type'] in PR and rng.random() < 0.5:
            return x['type']
        return rec(x)

    def rec(x):
        if isinstance(x, list):
            return [conv(b) for b in x]
        if isinstance(x, dict):
            y = dict(x)
            if isinstance(y.get('type'), (dict, list)):
                y['type'] = conv(y['type'])
            if isinstance(y.get('fields'), list):
                y['fields'] = [dict(f, type=conv(f['type'])) if isinstance(f, dict) and 'type' in f else f for f in y['fields']]
            if 'items' in y:
                y['items'] = conv(y['items'])
            if 'values' in y:
                y['values'] = conv(y['values'])
            return y
        return x
    return conv(j)


EDITS = [('key-order', shuffle_keys), ('docs', edit_docs), ('aliases', edit_aliases), ('defaults-order', edit_drop_defaults),
         ('attributes', edit_attrs), ('name-spelling', edit_name_spelling), ('primitive-form', edit_prim_form)]


def irrelevant_edits(j, rng, k):
    """returns [(edit name, text)]"""
    out = []
    names = list(EDITS)
    for i in range(k):
        name, fn = names[i % len(names)] if i < len(names) else rng.choice(names)
        jj = fn(copy.deepcopy(j), rng)
        txt = json.dumps(jj, indent=rng.choice([None, None, 1, 3]), ensure_ascii=rng.random() < 0.5)
        out.append((name, txt))
    # whitespace-only edit
    out.append(('whitespace', json.dumps(j, indent=2, separators=(' ,  ', ' :\t'))))
    return out
