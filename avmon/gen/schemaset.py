"""Sets of mutually referencing named schemas for multi-schema parsing (C20)."""
import json


def rec(name, fields, ns=None, **kw):
    d = {'type': 'record', 'name': name, 'fields': [{'name': n, 'type': t} for n, t in fields]}
    if ns is not None:
        d['namespace'] = ns
    d.update(kw)
    return d


def gen_set(rng, k):
    """returns (list of schema json, description)"""
    shape = rng.choice(['chain', 'diamond', 'cycle', 'cross-namespace', 'nested-definition-referenced', 'self-recursive+dep', 'dup-top-level', 'dup-nested-vs-top',
                        'dup-nested-in-two', 'alias-collides-with-name', 'dangling', 'enum-fixed-mix', 'leading-dot-ref', 'independent', 'keyword-names', 'random-graph', 'random-graph', 'random-graph'])
    ns = rng.choice([None, 'a', 'a.b', 'com.x'])
    q = (lambda n: (ns + '.' + n) if ns else n)
    if shape == 'random-graph':
        nss = [rng.choice([None, 'a', 'a.b', 'com.x']) for _ in range(2)]
        kinds = [rng.choice(['record', 'record', 'record', 'enum', 'fixed']) for _ in range(k)]
        kinds[0] = 'record'
        nsof = [rng.choice(nss) for _ in range(k)]
        full = [(nsof[i] + '.' if nsof[i] else '') + 'T%d' % i for i in range(k)]

        def refname(i, j):
            # from inside i's namespace: full name, or the simple name when the namespaces agree, or leading dot is avoided
            if nsof[i] == nsof[j] and rng.random() < 0.5:
                return 'T%d' % j
            if nsof[j] is None:
                return None     # a null-namespace type cannot be named from inside another namespace without the leading dot
            return full[j]
        out = []
        for i in range(k):
            if kinds[i] == 'enum':
                out.append({'type': 'enum', 'name': full[i], 'symbols': ['A', 'B', 'C'][:rng.randint(1, 3)]})
                continue
            if kinds[i] == 'fixed':
                out.append({'type': 'fixed', 'name': full[i], 'size': rng.randint(0, 5)})
                continue
            fs = [('v', rng.choice(['int', 'string', 'long', 'bytes']))]
            for j in range(k):
                if rng.random() < 0.55:
                    rn = refname(i, j)
                    if rn is None:
                        continue
                    back = j <= i and kinds[j] == 'record'
                    wrap = rng.choice(['opt', 'arr', 'map'] if back else ['plain', 'plain', 'opt', 'arr', 'map'])
                    t = {'plain': rn, 'opt': ['null', rn], 'arr': {'type': 'array', 'items': rn}, 'map': {'type': 'map', 'values': rn}}[wrap]
                    fs.append(('f%d' % j, t))
            out.append(rec('T%d' % i, fs, nsof[i]))
        return out, shape
    if shape == 'keyword-names':
        # legal names that coincide with words of the schema language (only primitive type names are reserved)
        kws = rng.sample(['map', 'array', 'error', 'union', 'decimal', 'items', 'values', 'symbols', 'namespace', 'type'], 3)
        kns = rng.choice(['geo', 'a.b', None])
        kq = (lambda n: (kns + '.' + n) if kns else n)
        out = [rec(kws[0], [('v', 'int')], kns),
               {'type': 'enum', 'name': kq(kws[1]), 'symbols': ['A', 'B']},
               rec('User', [('m', kq(kws[0])), ('e', ['null', kq(kws[1])]), ('l', {'type': 'array', 'items': kq(kws[0])})], kns),
               rec(kws[2], [('u', ['null', kq('User')]), ('again', {'type': 'map', 'values': kq(kws[1])})], kns)]
        return out[:max(3, k)], shape
    if shape == 'chain':
        names = ['N%d' % i for i in range(k)]
        out = []
        for i, n in enumerate(names):
            fs = [('v', rng.choice(['int', 'string', 'long']))]
            if i + 1 < k:
                fs.append(('next', rng.choice([q(names[i + 1]), ['null', q(names[i + 1])], {'type': 'array', 'items': q(names[i + 1])}])))
            out.append(rec(n, fs, ns))
        return out, shape
    if shape == 'diamond':
        out = [rec('Top', [('l', q('L')), ('r', q('R'))], ns), rec('L', [('b', q('Bot'))], ns), rec('R', [('b', ['null', q('Bot')])], ns),
               {'type': 'enum', 'name': 'Bot', 'symbols': ['X', 'Y'], **({'namespace': ns} if ns else {})}]
        return out[:max(k, 4)], shape
    if shape == 'cycle':
        out = [rec('A', [('b', ['null', q('B')])], ns), rec('B', [('a', ['null', q('A')]), ('c', {'type': 'map', 'values': q('C')})], ns), rec('C', [('a', {'type': 'array', 'items': q('A')})], ns)]
        return out, shape
    if shape == 'cross-namespace':
        out = [rec('P', [('q', 'n2.Q'), ('s', 'n1.S')], 'n1'), rec('Q', [('s', 'n1.S')], 'n2'), {'type': 'fixed', 'name': 'n1.S', 'size': 4}]
        return out, shape
    if shape == 'nested-definition-referenced':
        out = [rec('Outer', [('inner', {'type': 'enum', 'name': 'Inner', 'symbols': ['A', 'B']}), ('again', 'Inner' if ns is None else q('Inner'))], ns),
               rec('User', [('e', q('Inner')), ('o', ['null', q('Outer')])], ns)]
        return out, shape
    if shape == 'self-recursive+dep':
        out = [rec('Node', [('payload', q('Payload')), ('children', {'type': 'array', 'items': q('Node')})], ns), rec('Payload', [('x', 'bytes')], ns)]
        if k > 2:
            out.append(rec('Dept', [('head', q('Employee'))], ns))
            out.append(rec('Employee', [('badge', q('Payload')), ('dept', ['null', q('Dept')])], ns))
        return out, shape
    if shape == 'dup-top-level':
        out = [rec('D', [('x', 'int')], ns), rec('D', [('y', 'string')], ns), rec('E', [('d', q('D'))], ns)]
        return out, shape
    if shape == 'dup-nested-vs-top':
        out = [rec('Holder', [('d', rec('D', [('x', 'int')], ns))], ns), rec('D', [('y', 'string')], ns)]
        return out, shape
    if shape == 'dup-nested-in-two':
        out = [rec('H1', [('d', {'type': 'fixed', 'name': q('D'), 'size': 2})], ns), rec('H2', [('d', {'type': 'fixed', 'name': q('D'), 'size': 3})], ns)]
        return out, shape
    if shape == 'alias-collides-with-name':
        out = [rec('X', [('v', 'int')], ns, aliases=['Y']), rec('Y', [('w', 'long')], ns), rec('Z', [('y', q('Y'))], ns)]
        return out, shape
    if shape == 'dangling':
        out = [rec('A', [('m', q('Missing'))], ns), rec('B', [('a', q('A'))], ns)]
        return out, shape
    if shape == 'enum-fixed-mix':
        out = [{'type': 'enum', 'name': q('Color'), 'symbols': ['R', 'G']}, {'type': 'fixed', 'name': q('Hash'), 'size': 8},
               rec('Thing', [('c', q('Color')), ('h', q('Hash')), ('cs', {'type': 'map', 'values': q('Color')})], ns)]
        return out, shape
    if shape == 'leading-dot-ref':
        # a namespaced record reaches inputs of the null namespace through the leading-dot notation
        ons = rng.choice(['shop', 'a.b', 'com.x'])
        out = [rec('Order', [('total', '.Money'), ('tip', ['null', '.Money'])], ons), rec('Money', [('cur', 'Currency'), ('amount', 'long')], None),
               {'type': 'enum', 'name': 'Currency', 'symbols': ['EUR', 'USD']}]
        if k > 3:
            out.append(rec('Basket', [('orders', {'type': 'array', 'items': ons + '.Order'}), ('sum', '.Money')], rng.choice(['shop', 'other'])))
        return out, shape
    out = [rec('I%d' % i, [('v', 'int')], ns) for i in range(k)]
    return out, shape


def ground_truth(schemas):
    """(ok, reason) by the reference: every reference resolves within the set and no full name is defined twice"""
    from ..ref import names
    p = names.Parser()
    nodes = []
    try:
        for j in schemas:
            nodes.append(p.parse(j, None))
        for n in nodes:
            names.check_refs(n, p.env)
        for u in p.unions:
            names.check_union(u, p.env)
    except names.SchemaError as e:
        return False, e.rule
    return True, None


def _refs(node, out, seen):
    k = node['k']
    if k == 'ref':
        out.add(node['full'])
    elif k == 'array':
        _refs(node['items'], out, seen)
    elif k == 'map':
        _refs(node['values'], out, seen)
    elif k == 'union':
        for b in node['branches']:
            _refs(b, out, seen)
    elif k == 'record' and id(node) not in seen:
        seen.add(id(node))
        for f in node['fields']:
            _refs(f['type'], out, seen)


def dep_order(schemas):
    """indices in an order where every schema comes after the schemas whose definitions it references
    (ResolvedSchema::new_with_schemata documents that it resolves in list order); None for a cycle"""
    from ..ref import names
    defs, refs = [], []
    for j in schemas:
        p = names.Parser()
        n = p.parse(j, None)
        r = set()
        _refs(n, r, set())
        defs.append(set(p.env))
        refs.append(r - set(p.env))
    k = len(schemas)
    deps = [set(j for j in range(k) if j != i and refs[i] & defs[j]) for i in range(k)]
    order, done = [], set()
    while len(order) < k:
        nxt = [i for i in range(k) if i not in done and deps[i] <= done]
        if not nxt:
            return None
        order.append(nxt[0])
        done.add(nxt[0])
    return order


def closed_counting_aliases(schemas):
    """every reference resolves if aliases of named types count as names too"""
    from ..ref import names
    p = names.Parser()
    try:
        nodes = [p.parse(j, None) for j in schemas]
    except names.SchemaError:
        return False
    env = dict(p.env)
    for n in list(p.env.values()):
        for a in (n.get('aliases') or []):
            env.setdefault(a, n)
    try:
        for n in nodes:
            names.check_refs(n, env)
    except names.SchemaError:
        return False
    return True
