"""Sets of mutually referencing named schemas for multi-schema parsing (C20)."""
import json


def rec(name, fields, ns=None, **kw):
    d = {'type': 'record', 'name': name, 'fields': [{'name': n, 'type': t} for n, t in fields]}
    if ns is not None:
        d['namespace'] = ns
    d.update(kw)
    return d


def gen_set(rng, k):
    """returns (list of schema json, description)"""
    shape = rng.choice(['chain', 'diamond', 'cycle', 'cross-namespace', 'nested-definition-referenced', 'self-recursive+dep', 'dup-top-level', 'dup-nested-vs-top',
                        'dup-nested-in-two', 'alias-collides-with-name', 'dangling', 'enum-fixed-mix', 'leading-dot-ref', 'independent'])
    ns = rng.choice([None, 'a', 'a.b', 'com.x'])
    q = (lambda n: (ns + '.' + n) if ns else n)
    if shape == 'chain':
        names = ['N%d' % i for i in range(k)]
        out = []
        for i, n in enumerate(names):
            fs = [('v', rng.choice(['int', 'string', 'long']))]
            if i + 1 < k:
                fs.append(('next', rng.choice([q(names[i + 1]), ['null', q(names[i + 1])], {'type': 'array', 'items': q(names[i + 1])}])))
            out.append(rec(n, fs, ns))
        return out, shape
    if shape == 'diamond':
        out = [rec('Top', [('l', q('L')), ('r', q('R'))], ns), rec('L', [('b', q('Bot'))], ns), rec('R', [('b', ['null', q('Bot')])], ns),
               {'type': 'enum', 'name': 'Bot', 'symbols': ['X', 'Y'], **({'namespace': ns} if ns else {})}]
        return out[:max(k, 4)], shape
    if shape == 'cycle':
        out = [rec('A', [('b', ['null', q('B')])], ns), rec('B', [('a', ['null', q('A')]), ('c', {'type': 'map', 'values': q('C')})], ns), rec('C', [('a', {'type': 'array', 'items': q('A')})], ns)]
        return out, shape
    if shape == 'cross-namespace':
        out = [rec('P', [('q', 'n2.Q'), ('s', 'n1.S')], 'n1'), rec('Q', [('s', 'n1.S')], 'n2'), {'type': 'fixed', 'name': 'n1.S', 'size': 4}]
        return out, shape
    if shape == 'nested-definition-referenced':
        out = [rec('Outer', [('inner', {'type': 'enum', 'name': 'Inner', 'symbols': ['A', 'B']}), ('again', 'Inner' if ns is None else q('Inner'))], ns),
               rec('User', [('e', q('Inner')), ('o', ['null', q('Outer')])], ns)]
        return out, shape
    if shape == 'self-recursive+dep':
        out = [rec('Node', [('payload', q('Payload')), ('children', {'type': 'array', 'items': q('Node')})], ns), rec('Payload', [('x', 'bytes')], ns)]
        if k > 2:
            out.append(rec('Dept', [('head', q('Employee'))], ns))
            out.append(rec('Employee', [('badge', q('Payload')), ('dept', ['null', q('Dept')])], ns))
        return out, shape
    if shape == 'dup-top-level':
        out = [rec('D', [('x', 'int')], ns), rec('D', [('y', 'string')], ns), rec('E', [('d', q('D'))], ns)]
        return out, shape
    if shape == 'dup-nested-vs-top':
        out = [rec('Holder', [('d', rec('D', [('x', 'int')], ns))], ns), rec('D', [('y', 'string')], ns)]
        return out, shape
    if shape == 'dup-nested-in-two':
        out = [rec('H1', [('d', {'type': 'fixed', 'name': q('D'), 'size': 2})], ns), rec('H2', [('d', {'type': 'fixed', 'name': q('D'), 'size': 3})], ns)]
        return out, shape
    if shape == 'alias-collides-with-name':
        out = [rec('X', [('v', 'int')], ns, aliases=['Y']), rec('Y', [('w', 'long')], ns), rec('Z', [('y', q('Y'))], ns)]
        return out, shape
    if shape == 'dangling':
        out = [rec('A', [('m', q('Missing'))], ns), rec('B', [('a', q('A'))], ns)]
        return out, shape
    if shape == 'enum-fixed-mix':
        out = [{'type': 'enum', 'name': q('Color'), 'symbols': ['R', 'G']}, {'type': 'fixed', 'name': q('Hash'), 'size': 8},
               rec('Thing', [('c', q('Color')), ('h', q('Hash')), ('cs', {'type': 'map', 'values': q('Color')})], ns)]
        return out, shape
    if shape == 'leading-dot-ref':
        out = [rec('Order', [('total', 'Money' if ns is None else 'Money')], None), rec('Money', [('cur', 'Currency'), ('amount', 'long')], None),
               {'type': 'enum', 'name': 'Currency', 'symbols': ['EUR', 'USD']}]
        return out, shape
    out = [rec('I%d' % i, [('v', 'int')], ns) for i in range(k)]
    return out, shape


def ground_truth(schemas):
    """(ok, reason) by the reference: every reference resolves within the set and no full name is defined twice"""
    from ..ref import names
    p = names.Parser()
    nodes = []
    try:
        for j in schemas:
            nodes.append(p.parse(j, None))
        for n in nodes:
            names.check_refs(n, p.env)
        for u in p.unions:
            names.check_union(u, p.env)
    except names.SchemaError as e:
        return False, e.rule
    return True, None
