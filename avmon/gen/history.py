"""Writer operation histories for the container-file writer, with the information the sequential
model needs (which steps are meant to succeed / fail, and why)."""
import random

from ..ref.names import deref
from ..ref import avrobin
from .plan import plan_of

CODECS_QUICK = [None, {'name': 'deflate'}, {'name': 'snappy'}, {'name': 'bzip2'}, {'name': 'xz'}, {'name': 'zstandard'},
                {'name': 'deflate', 'level': 0}, {'name': 'deflate', 'level': 9}, {'name': 'bzip2', 'level': 1}, {'name': 'xz', 'level': 0},
                {'name': 'zstandard', 'level': 1}, {'name': 'zstandard', 'level': 19}]


def kinds_at_top(node, env):
    n = deref(node, env)
    if n['k'] == 'union':
        return set(deref(b, env)['k'] for b in n['branches'])
    return {n['k']}


def wrong_value_for(node, env):
    """a value that validation must reject for this schema (None if no safe choice).
    Value::Boolean validates only against boolean; Map only against map/record; Array only against array."""
    ks = kinds_at_top(node, env)
    if 'boolean' not in ks:
        return {'b': True}
    if not ks & {'map', 'record'}:
        return {'m': [['k', {'b': True}]]}
    if 'array' not in ks:
        return {'a': [{'b': True}]}
    return None


def partial_fail_value(node, env, v):
    """for a record with >= 2 fields: conforming value whose LAST field is replaced by a value whose
    encoder arm checks the schema kind and fails (Array value for a non-array schema, Map value
    otherwise), so that the unvalidated encoder fails after it has already emitted earlier fields"""
    n = deref(node, env)
    if n['k'] != 'record' or len(n['fields']) < 2:
        return None
    last = n['fields'][-1]
    ks = kinds_at_top(last['type'], env)
    if 'array' not in ks:
        w = {'a': [{'b': True}]}
    elif not ks & {'map', 'record'}:
        w = {'m': [['k', {'b': True}]]}
    else:
        return None
    out = {'r': [list(x) for x in v['r']]}
    out['r'][-1][1] = w
    return out


def gen_history(rng, node, env, vg, max_len, allow_ser=True):
    steps = []
    n = rng.randint(1, max_len)
    wrong = wrong_value_for(node, env)
    ended = False
    for i in range(n):
        c = rng.random()
        if c < 0.30:
            v = vg.gen(node)
            steps.append({'o': rng.choice(['append_value', 'append_value_ref', 'append']), 'v': v, 'expect': 'ok', 'vals': [v]})
        elif c < 0.38:
            v = vg.gen(node)
            steps.append({'o': rng.choice(['unvalidated_append_value', 'unvalidated_append_value_ref']), 'v': v, 'expect': 'ok', 'vals': [v]})
        elif c < 0.48 and allow_ser:
            v = vg.gen(node)
            try:
                steps.append({'o': 'append_ser', 'plan': plan_of(node, env, v), 'expect': 'ok', 'vals': [v]})
            except Exception:
                steps.append({'o': 'append_value', 'v': v, 'expect': 'ok', 'vals': [v]})
        elif c < 0.56:
            vs = [vg.gen(node) for _ in range(rng.randint(0, 4))]
            o = rng.choice(['extend', 'extend_from_slice', 'extend_ser' if allow_ser else 'extend'])
            if o == 'extend_ser':
                steps.append({'o': o, 'plans': [plan_of(node, env, v) for v in vs], 'expect': 'ok', 'vals': vs})
            else:
                steps.append({'o': o, 'vs': vs, 'expect': 'ok', 'vals': vs})
        elif c < 0.66:
            steps.append({'o': 'flush', 'expect': 'ok', 'vals': []})
        elif c < 0.74 and wrong is not None:
            steps.append({'o': rng.choice(['append_value', 'append_value_ref', 'extend', 'extend_from_slice']), 'expect': 'err', 'vals': [], 'why': 'validation'})
            if steps[-1]['o'].startswith('extend'):
                steps[-1]['vs'] = [wrong]
            else:
                steps[-1]['v'] = wrong
        elif c < 0.80:
            pv = partial_fail_value(node, env, vg.gen(node)) if deref(node, env)['k'] == 'record' else None
            if pv is not None:
                steps.append({'o': 'unvalidated_append_value_ref', 'v': pv, 'expect': 'err', 'vals': [], 'why': 'encoder-after-partial-output'})
        elif c < 0.85 and allow_ser:
            v = vg.gen(node)
            try:
                pl = plan_of(node, env, v)
            except Exception:
                continue
            if pl[0] == 'struct' and len(pl[2]) >= 2 and rng.random() < 0.7:
                pl = ['struct', pl[1], [list(x) for x in pl[2]]]
                pl[2][-1][1] = ['fail']
                why = 'serialize-impl-error-after-fields'
            else:
                pl = ['fail']
                why = 'serialize-impl-error'
            steps.append({'o': 'append_ser', 'plan': pl, 'expect': 'err', 'vals': [], 'why': why})
        elif c < 0.92:
            k = rng.choice(['user.k1', 'k', 'owner', 'avro.forbidden', 'avro-like', 'é'])
            steps.append({'o': 'add_meta', 'k': k, 'v': bytes(rng.getrandbits(8) for _ in range(rng.randint(0, 5))).hex(), 'expect': 'any', 'vals': []})
        elif c < 0.95:
            steps.append({'o': 'reset', 'expect': 'ok', 'vals': []})
        else:
            steps.append({'o': rng.choice(['into_inner', 'drop']), 'expect': 'ok', 'vals': []})
            ended = True
            break
    if not ended:
        steps.append({'o': rng.choice(['into_inner', 'into_inner', 'drop']), 'expect': 'ok', 'vals': []})
    return steps


def wire_steps(steps):
    """strip the model annotations: what is sent to the executor"""
    out = []
    for s in steps:
        out.append({k: v for k, v in s.items() if k not in ('expect', 'vals', 'why')})
    return out
