"""Driver: builds the executor against /repo's working tree, runs sharded workloads, collects
violations, applies the known-findings file, writes evidence and replay files.

Exit codes: 0 held, 1 violation, 2 inconclusive.
"""
import hashlib
import json
import os
import re
import resource
import shutil
import subprocess
import sys
import time

VERIF = os.path.dirname(os.path.dirname(os.path.abspath(__file__)))
# Development aid (tools/run_seed_scratch.sh): a copy of the harness that path-depends on a scratch copy of the repository,
# with its own target and output directories, so that a seeded change can be judged without touching /repo or the evidence of
# real runs.  The registered commands never set these variables.
HARNESS = os.environ.get('AVMON_HARNESS') or os.path.join(VERIF, 'harness')
TARGET = os.environ.get('AVMON_TARGET') or os.path.join(VERIF, 'target')
OUT = os.environ.get('AVMON_OUT') or VERIF
EXEC_BIN = os.path.join(TARGET, 'checked', 'avmon-exec')
CORPUS_BIN = os.path.join(TARGET, 'checked', 'avmon-corpus')
NCPU = min(16, os.cpu_count() or 4)
HOOKS_AVAILABLE = True


class Inconclusive(Exception):
    pass


def build(package='avmon-exec', extra=None, quiet=True):
    """cargo build of the executor against /repo's current working tree."""
    lock_src = '/repo/Cargo.lock'
    lock_dst = os.path.join(HARNESS, 'Cargo.lock')
    if not os.path.exists(lock_dst) and os.path.exists(lock_src):
        shutil.copy(lock_src, lock_dst)
    env = dict(os.environ, CARGO_NET_OFFLINE='true', CARGO_TERM_COLOR='never')
    if os.environ.get('AVMON_TARGET'):
        env['CARGO_TARGET_DIR'] = TARGET
    cmd = ['cargo', 'build', '--offline', '--profile', 'checked', '-p', package] + (extra or [])
    t0 = time.time()
    p = subprocess.run(cmd, cwd=HARNESS, env=env, stdout=subprocess.PIPE, stderr=subprocess.STDOUT, text=True)
    global HOOKS_AVAILABLE
    HOOKS_AVAILABLE = True
    if p.returncode != 0 and package == 'avmon-exec' and not extra:
        # the hook accessors are compiled only with the library's verif-hooks feature: a change to the
        # library may stop them compiling although the library itself (guard off) still builds.  The
        # monitors then run black-box, without the state peeks.
        q = subprocess.run(cmd + ['--no-default-features', '--features', 'ffi-codecs'], cwd=HARNESS, env=env,
                           stdout=subprocess.PIPE, stderr=subprocess.STDOUT, text=True)
        if q.returncode == 0:
            HOOKS_AVAILABLE = False
            print('note: the verif-hooks accessors do not compile against this tree; running without state peeks')
            return time.time() - t0
    if p.returncode != 0:
        tail = '\n'.join(p.stdout.splitlines()[-40:])
        raise Inconclusive('harness build failed against the current tree:\n' + tail)
    return time.time() - t0


class Violation:
    def __init__(self, sig, what, case, observed=None, expected=None):
        self.sig = sig
        self.what = what
        self.case = case
        self.observed = observed
        self.expected = expected


def load_known(prop):
    known, fixed = {}, []
    path = os.path.join(VERIF, 'KNOWN_FINDINGS.txt')
    if not os.path.exists(path):
        return known, fixed
    for line in open(path):
        line = line.strip()
        if not line or line.startswith('#'):
            continue
        m = re.match(r'known: property=(\S+) sig="([^"]*)"\s*::\s*(.*)$', line)
        if m:
            if m.group(1) == prop:
                known[m.group(2)] = m.group(3)
            continue
        if line.startswith('fixed:'):
            fixed.append(line)
    return known, fixed


class Run:
    def __init__(self, prop, tier, seed, level='exploration'):
        self.prop = prop
        self.tier = tier
        self.seed = seed
        self.level = level
        self.t0 = time.time()
        self.workdir = os.path.join(OUT, 'work', '%s-%d' % (prop, os.getpid()))
        shutil.rmtree(self.workdir, ignore_errors=True)
        os.makedirs(self.workdir)
        self.violations = []
        self.inconclusive = []
        self.evaluations = 0
        self.distinct = set()
        self.samples = []
        self.cov = {}
        self.assumptions = []
        self.rule = ''
        self.shard_seq = 0
        self.min_evaluations = 1
        self.min_distinct = 2
        self.exhaustive = None

    # ------------------------------------------------------------ bookkeeping
    def quick(self):
        return self.tier == 'quick'

    def count(self, key, n=1):
        self.cov[key] = self.cov.get(key, 0) + n

    def hist(self, key, item, n=1):
        d = self.cov.setdefault(key, {})
        d[item] = d.get(item, 0) + n

    def note_max(self, key, v):
        if v is not None and v > self.cov.get(key, -1):
            self.cov[key] = v

    def eval(self, shape_key=None, nontrivial=True):
        self.evaluations += 1
        if shape_key is not None and nontrivial:
            self.distinct.add(hashlib.blake2b(repr(shape_key).encode(), digest_size=8).digest())

    def sample(self, case, limit=5):
        if len(self.samples) < limit:
            self.samples.append(case)

    def violation(self, sig, what, case, observed=None, expected=None):
        self.violations.append(Violation(sig, what, case, observed, expected))

    def inconc(self, reason):
        self.inconclusive.append(reason)

    # ------------------------------------------------------------ executing ops
    def exec_cases(self, cases, shards=None, settings=None, cpu_limit_s=600, binary=None, mode='exec',
                   crash_is_violation=False):
        """cases: list of lists of op dicts (each op has a unique 'id'). Returns dict id -> event.

        A worker that dies leaves a 'call' record without result: reported through
        self.crashed (list of (op id, op name, returncode)).
        """
        binary = binary or os.path.join(TARGET, 'checked', 'avmon-exec')
        if not self.quick():
            # the limit is per worker process (a whole shard of cases), not per operation: thorough shards are long
            cpu_limit_s = max(cpu_limit_s, 6000)
        shards = shards or NCPU
        shards = max(1, min(shards, len(cases)))
        buckets = [[] for _ in range(shards)]
        for i, c in enumerate(cases):
            buckets[i % shards].append(c)
        procs = []
        for b in buckets:
            self.shard_seq += 1
            sp = os.path.join(self.workdir, 's%d.jsonl' % self.shard_seq)
            ep = os.path.join(self.workdir, 'e%d.jsonl' % self.shard_seq)
            with open(sp, 'w') as f:
                if settings:
                    f.write(json.dumps(dict(id='__settings', op='settings', **settings)) + '\n')
                for c in b:
                    for op in c:
                        f.write(json.dumps(op) + '\n')

            def limits():
                resource.setrlimit(resource.RLIMIT_CPU, (cpu_limit_s, cpu_limit_s + 5))
                resource.setrlimit(resource.RLIMIT_CORE, (0, 0))
            p = subprocess.Popen([binary, mode, sp, ep], stdout=subprocess.DEVNULL, stderr=subprocess.PIPE,
                                 preexec_fn=limits)
            procs.append((p, sp, ep))
        events = {}
        self.crashed = getattr(self, 'crashed', [])
        for p, sp, ep in procs:
            try:
                _, err = p.communicate(timeout=cpu_limit_s * 10)
            except subprocess.TimeoutExpired:
                p.kill()
                p.communicate()
                self.inconc('worker exceeded the wall-clock watchdog')
                continue
            pending = None
            if os.path.exists(ep):
                with open(ep) as f:
                    for line in f:
                        try:
                            ev = json.loads(line)
                        except ValueError:
                            continue
                        if 'call' in ev:
                            pending = ev
                        else:
                            if 'harness_error' in ev and str(ev['harness_error']).startswith('unknown schema id'):
                                self.count('ops_skipped_because_their_schema_was_rejected')
                            elif 'harness_error' in ev and str(ev['harness_error']).startswith('not json'):
                                self.count('texts_not_json_for_parse(Value)_entry')
                            elif 'harness_error' in ev:
                                self.inconc('harness error on op %s: %s' % (ev.get('id'), ev['harness_error']))
                            events[ev.get('id')] = ev
                            pending = None
            if p.returncode != 0:
                info = (pending or {}).get('id'), (pending or {}).get('call'), p.returncode, (err or b'')[-400:].decode('utf-8', 'replace')
                self.crashed.append(info)
                if not crash_is_violation:
                    self.inconc('worker died (rc=%s) during op %s/%s: %s' % (p.returncode, info[0], info[1], info[3]))
            os.unlink(sp)
            if os.path.exists(ep):
                os.unlink(ep)
        return events

    # ------------------------------------------------------------ finishing
    def finish(self):
        known, _fixed = load_known(self.prop)
        wall = time.time() - self.t0
        by_sig = {}
        for v in self.violations:
            by_sig.setdefault(v.sig, []).append(v)
        new_sigs = [s for s in by_sig if s not in known]
        known_hit = [s for s in by_sig if s in known]
        os.makedirs(os.path.join(OUT, 'replay'), exist_ok=True)
        os.makedirs(os.path.join(OUT, 'evidence'), exist_ok=True)
        replay_paths = {}
        if not getattr(self, 'replaying', False):
            import glob
            for old in glob.glob(os.path.join(OUT, 'replay', '%s-*.json' % self.prop)):
                os.unlink(old)
        for s in by_sig:
            h = hashlib.blake2b(s.encode(), digest_size=5).hexdigest()
            for n, v in enumerate(by_sig[s][:2]):
                path = os.path.join(OUT, 'replay', '%s-%s-%d.json' % (self.prop, h, n))
                with open(path, 'w') as f:
                    json.dump({'property': self.prop, 'sig': s, 'what': v.what, 'case': v.case,
                               'observed': v.observed, 'expected': v.expected, 'seed': self.seed,
                               'tier': self.tier}, f, indent=1, default=str)
                replay_paths.setdefault(s, path)
        for s in sorted(known_hit):
            print('KNOWN-FINDING: property=%s %s [sig="%s", %d occurrence(s) this run]' % (
                self.prop, known[s], s, len(by_sig[s])))
        for s in sorted(new_sigs):
            v = by_sig[s][0]
            print('VIOLATION property=%s replay=%s' % (self.prop, replay_paths[s]))
            print('  signature: %s' % s)
            print('  what: %s' % v.what)
        status = 'held'
        if new_sigs:
            status = 'violated'
        elif self.inconclusive or self.evaluations < self.min_evaluations or len(self.distinct) < self.min_distinct:
            status = 'inconclusive'
            reasons = list(self.inconclusive[:5])
            if self.evaluations < self.min_evaluations:
                reasons.append('only %d evaluations (< %d required)' % (self.evaluations, self.min_evaluations))
            if len(self.distinct) < self.min_distinct:
                reasons.append('only %d distinct non-trivial cases (< %d required)' % (len(self.distinct), self.min_distinct))
            for r_ in reasons:
                print('INCONCLUSIVE property=%s reason=%s' % (self.prop, str(r_).replace('\n', ' | ')[:600]))
        cov = dict(self.cov)
        cov.update({
            'evaluations': int(self.evaluations),
            'distinct_nontrivial': len(self.distinct),
            'rule': self.rule,
            'samples': self.samples[:5] or [{'note': 'no sample recorded'}],
            'known_findings_hit': sorted(known_hit),
            'known_findings_not_seen': sorted(s for s in known if s not in by_sig),
            'new_violation_signatures': sorted(new_sigs),
            'inconclusive_reasons': [str(x)[:300] for x in self.inconclusive[:10]],
            'status': status,
        })
        if self.exhaustive is not None:
            cov['exhaustive'] = self.exhaustive
        ev = {'property_id': self.prop, 'tier': self.tier, 'seed': int(self.seed), 'level': self.level,
              'coverage': cov, 'assumptions': self.assumptions, 'wall_s': round(wall, 2),
              'violations': len(new_sigs)}
        with open(os.path.join(OUT, 'evidence', '%s%s.json' % (self.prop, '.replay' if getattr(self, 'replaying', False) else '')), 'w') as f:
            json.dump(ev, f, indent=1, default=str)
        shutil.rmtree(self.workdir, ignore_errors=True)
        print('%s: %s  evaluations=%d distinct_nontrivial=%d known_findings=%d wall=%.1fs' % (
            self.prop, status, self.evaluations, len(self.distinct), len(known_hit), wall))
        return {'held': 0, 'violated': 1, 'inconclusive': 2}[status]


def main(argv):
    import argparse
    import importlib
    ap = argparse.ArgumentParser()
    ap.add_argument('prop')
    ap.add_argument('--tier', default=os.environ.get('VERIF_TIER', 'quick'))
    ap.add_argument('--replay')
    ap.add_argument('--no-build', action='store_true')
    a = ap.parse_args(argv)
    seed = int(os.environ.get('VERIF_SEED', '1'))
    prop = a.prop.upper()
    mod = importlib.import_module('avmon.props.%s' % prop.lower())
    run = Run(prop, a.tier if a.tier in ('quick', 'thorough') else 'quick', seed, getattr(mod, 'LEVEL', 'exploration'))
    try:
        if not a.no_build:
            build(getattr(mod, 'PACKAGE', 'avmon-exec'))
        if a.replay:
            case = json.load(open(a.replay))
            run.replaying = True
            mod.replay(run, case)
        else:
            mod.check(run)
    except Inconclusive as e:
        run.inconc(str(e))
    return run.finish()


if __name__ == '__main__':
    sys.exit(main(sys.argv[1:]))
