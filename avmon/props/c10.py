"""C10 schema -> JSON -> schema preserves the schema (also through a container-file header)."""
import json
import random

from . import common
from .c12 import schema_texts
from ..gen import schema as gschema
from ..ref import names, normalize

LEVEL = 'exploration'


class DupKey(Exception):
    pass


def strict_loads(text):
    def hook(pairs):
        seen = set()
        for k, _ in pairs:
            if k in seen:
                raise DupKey(k)
            seen.add(k)
        return dict(pairs)
    return json.loads(text, object_pairs_hook=hook)


def targeted():
    """shapes the property text names explicitly"""
    out = []
    # named type with explicitly empty / different namespace inside a namespaced record, defined then referenced
    out.append({'type': 'record', 'name': 'Outer', 'namespace': 'a.b', 'fields': [
        {'name': 'x', 'type': {'type': 'enum', 'name': 'NoNs', 'namespace': '', 'symbols': ['A']}},
        {'name': 'y', 'type': {'type': 'array', 'items': 'int'}}]})
    out.append({'type': 'record', 'name': 'Outer', 'namespace': 'a.b', 'fields': [
        {'name': 'x', 'type': {'type': 'fixed', 'name': 'Other', 'namespace': 'c.d', 'size': 2}},
        {'name': 'y', 'type': 'c.d.Other'},
        {'name': 'z', 'type': {'type': 'record', 'name': 'In', 'fields': [{'name': 'q', 'type': 'c.d.Other'}, {'name': 'r', 'type': 'Outer'}]}}]})
    out.append({'type': 'record', 'name': 'x.y.Dotted', 'namespace': 'ignored.ns', 'fields': [
        {'name': 'f', 'type': {'type': 'enum', 'name': 'E', 'symbols': ['S']}}, {'name': 'g', 'type': 'x.y.E'}]})
    # decimal on fixed that also carries its own attributes
    out.append({'type': 'fixed', 'name': 'D', 'size': 8, 'logicalType': 'decimal', 'precision': 10, 'scale': 2, 'custom': 'c', 'doc': 'd', 'aliases': ['DD']})
    out.append({'type': 'record', 'name': 'R', 'fields': [
        {'name': 'd', 'type': {'type': 'fixed', 'name': 'D2', 'namespace': 'n', 'size': 4, 'logicalType': 'decimal', 'precision': 5}},
        {'name': 'u', 'type': {'type': 'fixed', 'name': 'U', 'size': 16, 'logicalType': 'uuid', 'x': 1}},
        {'name': 'du', 'type': {'type': 'fixed', 'name': 'Du', 'size': 12, 'logicalType': 'duration', 'y': [1]}},
        {'name': 'b', 'type': {'type': 'bytes', 'logicalType': 'decimal', 'precision': 4, 'scale': 4}}]})
    # fixed-based schemas that are not decimals carrying attributes named like the decimal's own keys
    out.append({'type': 'record', 'name': 'FixAttrs', 'fields': [
        {'name': 'p', 'type': {'type': 'fixed', 'name': 'Plain', 'size': 4, 'precision': 9, 'scale': 'two'}},
        {'name': 'u', 'type': {'type': 'fixed', 'name': 'U2', 'size': 16, 'logicalType': 'uuid', 'scale': 1}},
        {'name': 'du', 'type': {'type': 'fixed', 'name': 'Du2', 'size': 12, 'logicalType': 'duration', 'precision': [7]}},
        {'name': 'e', 'type': {'type': 'enum', 'name': 'EnP', 'symbols': ['A'], 'precision': 1, 'size': 2}},
        {'name': 'a', 'type': {'type': 'array', 'items': 'int', 'scale': 0, 'values': 'x'}}]})
    # attributes colliding with structural keys of other kinds, docs/defaults with characters needing escapes
    out.append({'type': 'record', 'name': 'Esc', 'doc': 'q" b\\ nl\n tab\t ctl\u0001 é \U0001F600', 'symbols': ['not', 'an', 'enum'], 'size': 'x', 'items': 1, 'fields': [
        {'name': 's', 'type': 'string', 'default': 'q" b\\ nl\n é \U0001F600 \u0000', 'doc': ' '},
        {'name': 'by', 'type': 'bytes', 'default': 'ÿ\u0000'},
        {'name': 'm', 'type': {'type': 'map', 'values': 'long', 'fields': 'attr'}, 'default': {'a"b': 1}},
        {'name': 'a', 'type': {'type': 'array', 'items': 'double', 'symbols': []}, 'default': [1.5, 2]},
        {'name': 'e', 'type': {'type': 'enum', 'name': 'En', 'symbols': ['A', 'B'], 'default': 'B', 'fields': 7}, 'default': 'A'},
        {'name': 'n', 'type': ['null', 'int'], 'default': None},
        {'name': 'i', 'type': ['int', 'null'], 'default': 3}]})
    return out


def null_ns_nested(j, ns=None):
    """does the text define a named type of the null namespace inside a namespaced type?"""
    if isinstance(j, list):
        return any(null_ns_nested(b, ns) for b in j)
    if not isinstance(j, dict):
        return False
    t = j.get('type')
    if isinstance(t, (dict, list)):
        return null_ns_nested(t, ns)
    inner = ns
    if t in ('record', 'error', 'enum', 'fixed') and isinstance(j.get('name'), str):
        try:
            inner = names.compute_name(j, ns)[0]
        except names.SchemaError:
            return False
        if inner is None and ns is not None:
            return True
    if t in ('record', 'error'):
        return any(null_ns_nested(f.get('type'), inner) for f in j.get('fields', []) if isinstance(f, dict))
    if t == 'array':
        return null_ns_nested(j.get('items'), ns)
    if t == 'map':
        return null_ns_nested(j.get('values'), ns)
    return False


def check(run, replay_case=None):
    n_random = 1200 if run.quick() else 30000
    run.rule = ('boundary + targeted shapes (empty/different namespace inside a namespaced record, dotted names, decimal/uuid/duration on '
                'fixed with own attributes, attribute keys colliding with structural keys, docs/defaults needing escapes) + seeded random '
                'decorated schemas; distinct = schema shape x decorations present')
    run.min_evaluations = 300
    run.min_distinct = 50
    run.assumptions = ['independent name-resolution model avmon/ref/names.py + normal form avmon/ref/normalize.py']
    if replay_case is not None:
        cases = [replay_case]
    else:
        cases = []
        texts = [(j, 'targeted') for j in targeted()]
        texts += schema_texts(run, n_random, gschema.Opts(decorations=True, defaults=True, attr_on_logical=True, empty_ns_override=True))
        for n, (j, origin) in enumerate(texts):
            cases.append({'cid': 'c%d' % n, 'schema': j, 'origin': origin})
    b1 = []
    for c in cases:
        cid = c['cid']
        b1.append([{'id': '%s/p' % cid, 'op': 'parse_schema', 'sid': cid, 'text': json.dumps(c['schema'], ensure_ascii=False)},
                   {'id': '%s/i' % cid, 'op': 'schema_info', 'sid': cid, 'want': ['json', 'dump']},
                   {'id': '%s/w' % cid, 'op': 'writer_history', 'sid': cid, 'steps': [{'o': 'into_inner'}], 'full_state': False}])
    ev = run.exec_cases(b1)
    b2 = []
    for c in cases:
        cid = c['cid']
        pe, ie = ev.get('%s/p' % cid), ev.get('%s/i' % cid)
        if pe is None or ie is None:
            continue
        if 'ok' not in pe:
            run.hist('schemas_rejected_by_parser(C11 territory)', (pe.get('err') or {'kind': 'panic'})['kind'])
            continue
        info = ie.get('ok', {})
        j1 = info.get('json', {}).get('ok')
        d0 = info.get('dump', {}).get('ok')
        if j1 is None or d0 is None:
            run.violation('serialize-failed %s' % ('panic site=' + info['json']['panic']['site'] if 'panic' in info.get('json', {}) else 'error'),
                          'serializing an accepted schema failed', c, observed=info)
            continue
        c['j1'], c['d0'] = j1, d0
        ops = [{'id': '%s/p1' % cid, 'op': 'parse_schema', 'sid': cid, 'text': j1},
               {'id': '%s/i1' % cid, 'op': 'schema_info', 'sid': cid, 'want': ['json', 'dump']}]
        we = ev.get('%s/w' % cid)
        if we is not None and 'ok' in we:
            ops.append({'id': '%s/r' % cid, 'op': 'reader_read', 'bytes': we['ok']['bytes']})
            c['has_file'] = True
        b2.append(ops)
    ev2 = run.exec_cases(b2)
    for c in cases:
        if 'j1' not in c:
            continue
        cid = c['cid']
        j1, d0 = c['j1'], c['d0']
        node, env = names.parse(c['schema'])
        decos = tuple(sorted(set(k for k in ('doc', 'aliases', 'default', 'namespace', 'logicalType') if ('"%s"' % k) in json.dumps(c['schema']))))
        run.eval((common.schema_shape(node, env), decos), True)
        run.sample({'text': c['schema'], 'serialized': j1})
        case = {k: v for k, v in c.items() if k not in ('d0',)}
        # (1) strict JSON
        try:
            j1_obj = strict_loads(j1)
        except DupKey as e:
            run.violation('duplicate-json-key key=%s' % e, 'serialized schema is not strict JSON (duplicate key)', case, observed=j1)
            j1_obj = json.loads(j1)
        except ValueError:
            run.violation('not-json', 'serialized schema is not JSON', case, observed=j1)
            continue
        # (4) independent: normal forms of t and j1 under the specification's name rules
        try:
            n0 = normalize.norm_json(c['schema'])
            n1 = normalize.norm_json(j1_obj)
            lib0 = normalize.norm_dump(d0)
            for sg in sorted(set(normalize.diffs(n0, lib0))):
                # the parser itself disagrees with the reference reading of the text
                if sg.startswith(('attrs-differs', 'extra-attrs', 'missing-attrs')) and False:
                    continue
                run.violation('parse-vs-spec %s' % sg, 'the parsed schema differs from the reference reading of the text', case,
                              observed=lib0, expected=n0)
            for sg in sorted(set(normalize.diffs(n0, n1))):
                run.violation('serialized-denotes-different-schema %s' % sg, 'under the specification\'s name rules the serialized JSON denotes a different schema than the input text',
                              case, observed=n1, expected=n0)
        except names.SchemaError as e:
            why = str(e).split(' ')[0]
            if why in ('unresolved', 'duplicate') and null_ns_nested(c['schema']):
                why += ' cause=null-namespace-lost'
            run.violation('serialized-not-wellformed why=%s' % why, 'reference parser rejects the serialized schema: %s' % e, case, observed=j1)
        # (2),(3) re-parse
        pe, ie = ev2.get('%s/p1' % cid), ev2.get('%s/i1' % cid)
        if pe is None:
            continue
        run.count('reparsed')
        if 'ok' not in pe:
            kind = (pe.get('err') or {'kind': 'panic'})['kind']
            if kind in ('Unknown-primitive-type', 'Two-schemas-with-the-same-fullname') and null_ns_nested(c['schema']):
                kind += ' cause=null-namespace-lost'
            run.violation('reparse-failed kind=%s' % kind, 'the serialized schema is rejected by the parser', case, observed=pe)
            continue
        info = ie.get('ok', {})
        d1 = info.get('dump', {}).get('ok')
        j2 = info.get('json', {}).get('ok')
        if d1 is not None:
            for sg in sorted(set(normalize.diffs(normalize.norm_dump(d0), normalize.norm_dump(d1)))):
                run.violation('reparsed-schema-differs %s' % sg, 'parse(to_json(parse(t))) differs structurally from parse(t)', case,
                              observed=d1, expected=d0)
        if j2 != j1:
            ds = set(normalize.diffs(normalize.norm_dump(d0), normalize.norm_dump(d1))) if d1 is not None else set()
            cause = ' cause=null-namespace-lost' if ds and all(x.startswith('null-namespace-lost') for x in ds) else ''
            run.violation('text-not-idempotent' + cause, 'serializing the re-parsed schema gives different text', case, observed=j2, expected=j1)
        # (5) container header
        re_ = ev2.get('%s/r' % cid)
        if re_ is not None:
            run.count('container_headers_checked')
            if 'ok' not in re_ or 'open_err' in re_.get('ok', {}):
                run.violation('header-schema-unreadable kind=%s' % ((re_.get('ok', {}).get('open_err') or re_.get('err') or {'kind': 'panic'})['kind']),
                              'a file written with this schema cannot be opened', case, observed=re_)
            else:
                for sg in sorted(set(normalize.diffs(normalize.norm_dump(d0), normalize.norm_dump(re_['ok']['writer_schema'])))):
                    run.violation('header-schema-differs %s' % sg, 'the schema embedded in the container header differs from the writer\'s', case,
                                  observed=re_['ok']['writer_schema'], expected=d0)


def replay(run, rc):
    c = rc['case']
    for k in ('j1', 'has_file'):
        c.pop(k, None)
    check(run, replay_case=c)
