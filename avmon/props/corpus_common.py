"""Runs the typed corpus binary (avmon-corpus) sharded over the cores and collects its reports."""
import json
import os
import subprocess
from concurrent.futures import ThreadPoolExecutor

from .. import driver
from ..ref import names, avrobin, wellformed, normalize


def run_corpus(run, which, n_values, shards=16):
    outs = []

    def one(i):
        out = os.path.join(run.workdir, '%s-%d.json' % (which, i))
        p = subprocess.run([driver.CORPUS_BIN, which, str(run.seed), str(n_values), out, 'shard', str(i), str(shards)], stdout=subprocess.PIPE, stderr=subprocess.PIPE, timeout=3000)
        if p.returncode != 0 or not os.path.exists(out):
            return None, 'shard %d rc=%s %s' % (i, p.returncode, p.stderr[-300:].decode('utf-8', 'replace'))
        with open(out) as f:
            return json.load(f), None
    with ThreadPoolExecutor(max_workers=shards) as ex:
        for res, err in ex.map(one, range(shards)):
            if res is None:
                run.inconc('corpus shard failed: %s' % err)
            else:
                outs += res['types']
    return outs


def reference_checks(run, t, prop):
    """samples of the emitted bytes go to the strict reference decoder; derived schemas are walked
    by the independent well-formedness checker"""
    if not t.get('schema_json'):
        return
    try:
        sj = json.loads(t['schema_json'])
        node, env = names.parse(sj)
    except (ValueError, names.SchemaError) as e:
        if prop == 'C17':
            run.violation('T=%s derived-schema-rejected-by-reference why=%s' % (t['name'], getattr(e, 'rule', 'json')), 'the reference parser rejects the derived schema: %s' % e,
                          {'type': t['name'], 'schema': t['schema_json']})
        return
    for s in t.get('samples', []):
        b = bytes.fromhex(s['bytes'])
        run.count('sample_byte_strings_decoded_by_the_reference')
        try:
            avrobin.decode_all(node, env, b)
        except avrobin.DecodeError as e:
            run.violation('T=%s serde-bytes-rejected-by-reference' % t['name'], 'the strict reference decoder rejects bytes the serde path emitted (%s)' % e,
                          {'type': t['name'], 'schema': t['schema_json'], 'sample': s})
    if prop == 'C17' and t.get('dump') is not None:
        for rule in wellformed.check(t['dump']):
            run.violation('T=%s derived-schema-illformed rule=%s' % (t['name'], rule), 'the derived schema violates: %s' % rule, {'type': t['name'], 'schema': t['schema_json']})
        try:
            ds = [d for d in normalize.diffs(normalize.norm_dump(t['dump']), normalize.norm_json(sj)) if not d.startswith('null-namespace-lost')]
            for d in sorted(set(ds)):
                run.violation('T=%s derived-schema-json-denotes-different-schema %s' % (t['name'], d), 'the JSON of the derived schema denotes a different schema (reference reading)',
                              {'type': t['name'], 'schema': t['schema_json']})
        except Exception:
            run.count('schemas_not_comparable_by_reference')


def report(run, types, prop):
    for t in types:
        run.evaluations += t['checks']
        run.distinct.add(('%s' % t['name']).encode())
        if len(run.samples) < 5:
            run.sample({'type': t['name'], 'schema': t.get('schema_json'), 'values': t['values'], 'sample_bytes': t.get('samples', [])[:1]})
        for v in t['violations']:
            run.violation('T=%s %s' % (t['name'], v['sig']), '%s: %s (%d occurrences); first: %s' % (t['name'], v['sig'], v['count'], json.dumps(v['first'])[:300]),
                          {'type': t['name'], 'schema': t.get('schema_json'), 'witness': v['first']}, observed=v)
        reference_checks(run, t, prop)
    run.cov['types_in_corpus'] = len(types)
    run.cov['values_generated'] = sum(t['values'] for t in types)
