"""C03 container files return exactly the appended values for any writer history."""
import json
import os
import random

from . import common
from ..gen import schema as gschema
from ..gen import value as gvalue
from ..gen import history as H
from ..ref import names, avrobin, normalize

LEVEL = 'exploration'


ZERO_WIDTH = ['null', {'type': 'record', 'name': 'Empty', 'fields': []}, {'type': 'fixed', 'name': 'F0', 'size': 0},
              {'type': 'record', 'name': 'Nulls', 'fields': [{'name': 'a', 'type': 'null'}, {'name': 'b', 'type': {'type': 'record', 'name': 'E2', 'fields': []}},
                                                             {'name': 'c', 'type': {'type': 'fixed', 'name': 'F00', 'size': 0}}]},
              {'type': 'array', 'items': 'null'}, {'type': 'map', 'values': {'type': 'record', 'name': 'E3', 'fields': []}}]


def make_cases(run, n, max_len, seed_tag='c03'):
    cases = []
    bc = common.boundary_cases()
    for i in range(n):
        rng = random.Random('%s/%s/%d' % (run.seed, seed_tag, i))
        if i % 4 == 0:
            j = bc[(i // 4) % len(bc)][0]
        elif i % 8 == 1:
            # values that occupy no bytes: "a block is pending" and "the buffer holds bytes" are different conditions for them
            j = ZERO_WIDTH[(i // 8) % len(ZERO_WIDTH)]
        else:
            j = gschema.SchemaGen(rng, gschema.Opts(max_depth=rng.choice([0, 1, 2, 2, 3]), decorations=rng.random() < 0.2)).gen()
        node, env = names.parse(j)
        vg = gvalue.ValueGen(rng, env, max_depth=4, max_len=3)
        steps = H.gen_history(rng, node, env, vg, max_len)
        L = len(avrobin.encode(node, env, vg.gen(node)))
        block_size = rng.choice([0, 1, max(L - 1, 0), L, L + 1, 3 * L + 1, 64, 16000, None])
        c = {'cid': 'h%d' % i, 'schema': j, 'codec': rng.choice(H.CODECS_QUICK), 'block_size': block_size,
             'target_block': rng.choice([None, None, 1, 16]), 'marker': '%032x' % rng.getrandbits(128),
             'meta_pre': [['pre.k', 'ab01']] if rng.random() < 0.2 else [], 'steps': steps, 'steps2': None}
        if rng.random() < 0.3:
            c['steps2'] = H.gen_history(rng, node, env, vg, max(2, max_len // 2))
            c['ctor2'] = rng.random() < 0.5
        cases.append(c)
    return cases


def writer_op(c, cid, steps, phase2_prefix=None):
    op = {'id': '%s/w%s' % (cid, '2' if phase2_prefix is not None else '1'), 'op': 'writer_history', 'sid': cid,
          'codec': c['codec'], 'marker': c['marker'], 'steps': H.wire_steps(steps)}
    if c['block_size'] is not None:
        op['block_size'] = c['block_size']
    if c['target_block'] is not None:
        op['target_block'] = c['target_block']
    if phase2_prefix is None:
        if c['meta_pre']:
            op['meta_pre'] = c['meta_pre']
    else:
        op['append_to'] = {'prefix': phase2_prefix}
        if c.get('ctor2'):
            op['append_to_ctor'] = True
            op.pop('block_size', None)
            op.pop('target_block', None)
    return op


class Model:
    def __init__(self, meta_pre):
        self.values = []
        self.meta = dict((k, v) for k, v in meta_pre)
        self.modelable = True


def apply_steps(run, c, model, steps, wev, node, env, phase):
    """walks the recorded events of one writer; updates the model; checks the per-step invariants"""
    case = strip(c)
    if 'ok' not in wev:
        if 'panic' in wev:
            run.violation('writer-panic site=%s' % wev['panic']['site'], 'writer history panicked: %s' % wev['panic']['msg'][:200], case, observed=wev['panic'])
        else:
            run.violation('writer-setup-failed kind=%s' % (wev.get('err') or {}).get('kind'), 'writer could not be constructed', case, observed=wev)
        model.modelable = False
        return None
    evs = wev['ok']['steps']
    prev = wev['ok']['init']
    prev_sink = None
    for i, (st, e) in enumerate(zip(steps, evs)):
        ok = 'ok' in e['r']
        o = st['o']
        run.hist('ops', o + ('' if ok else '(err)'))
        if st['expect'] == 'ok' and not ok:
            run.violation('conforming-op-rejected op=%s kind=%s' % (o, e['r']['err']['kind']), 'an operation on conforming input returned an error', dict(case, step=i, phase=phase), observed=e)
            model.modelable = False
        if st['expect'] == 'err' and ok:
            run.violation('failing-op-accepted op=%s why=%s' % (o, st.get('why')), 'an append that must fail returned Ok', dict(case, step=i, phase=phase), observed=e)
            model.modelable = False
        if ok:
            model.values += st['vals']
            if o == 'add_meta':
                model.meta[st['k']] = st['v']
                if st['k'].startswith('avro.'):
                    run.violation('reserved-metadata-key-accepted', 'add_user_metadata accepted a key in the reserved avro. namespace', dict(case, step=i), observed=e)
            if o == 'reset':
                model.values = []
                model.meta = {}
        cur = e['st']
        if cur is not None:
            run.hist('writer_states(nv>0,buf>0,header)', '%d%d%d' % (cur['nv'] > 0, cur['bl'] > 0, cur['hh']))
            if prev_sink is not None and e['sink'] > prev_sink:
                run.count('steps_that_wrote_to_the_sink')
            # an op that returned Err leaves the pending state untouched
            if not ok and prev is not None and (cur['bl'], cur['nv']) != (prev['bl'], prev['nv']):
                run.violation('failed-op-changed-pending-state op=%s why=%s' % (o, st.get('why', 'n/a')),
                              'an operation that returned Err changed the pending block (buffer %d->%d bytes, count %d->%d)' % (prev['bl'], cur['bl'], prev['nv'], cur['nv']),
                              dict(case, step=i, phase=phase), observed={'before': brief(prev), 'after': brief(cur)})
                model.modelable = False
            # conservation: the pending buffer holds exactly num_values datums = the most recently appended values
            elif 'buf' in cur and model.modelable:
                buf = bytes.fromhex(cur['buf'])
                pos = 0
                got = []
                try:
                    for _ in range(cur['nv']):
                        v, pos = avrobin.decode(node, env, buf, pos)
                        got.append(v)
                    good = pos == len(buf) and cur['nv'] <= len(model.values) and all(
                        avrobin.veq(a, b) for a, b in zip(got, model.values[len(model.values) - cur['nv']:]))
                except avrobin.DecodeError:
                    good = False
                run.count('pending_buffer_checks')
                if not good:
                    run.violation('pending-buffer-inconsistent after=%s' % o, 'the pending block buffer does not decode into exactly num_values (=%d) of the last appended values' % cur['nv'],
                                  dict(case, step=i, phase=phase), observed=brief(cur))
                    model.modelable = False
        prev = cur
        prev_sink = e['sink']
    return wev['ok']['bytes']


def brief(st):
    return None if st is None else {k: v for k, v in st.items()}


def strip(c):
    return {k: v for k, v in c.items() if not k.startswith('_')}


def check(run, replay_case=None):
    n = 500 if run.quick() else 20000
    max_len = 12 if run.quick() else 40
    run.rule = ('seeded writer histories over {append_value, append_value_ref, append (deprecated), unvalidated appends, append_ser, extend*, flush, '
                'failing appends (validation; encoder after partial output; Serialize error), add_user_metadata, reset, into_inner, drop, append_to} x '
                'codec x block_size in {0,1,|value|-1,|value|,|value|+1,3|value|+1,64,16000,default} x schema/value; distinct = (op-sequence shape, codec, '
                'block-size class, schema shape); non-trivial = at least one value was appended')
    run.min_evaluations = 100
    run.min_distinct = 50
    run.assumptions = ['sequential model of Writer in this file (values appended by ops that returned Ok; reset discards; metadata only before the header)',
                       'pending-buffer conservation uses the Writer::verif_state hook and the reference decoder']
    cases = [replay_case] if replay_case is not None else make_cases(run, n, max_len)
    b1 = []
    for c in cases:
        cid = c['cid']
        b1.append([{'id': '%s/p' % cid, 'op': 'parse_schema', 'sid': cid, 'text': json.dumps(c['schema'])},
                   writer_op(c, cid, c['steps'])])
    ev = run.exec_cases(b1)
    if (not run.quick() or os.environ.get('VERIF_SANITIZERS') == '1') and replay_case is None:
        # Writer::into_inner / Drop contain the crate's only unsafe blocks: the same histories under Miri
        from .. import sanitizers
        def pref(c):
            t = json.dumps(c)
            return 3 * ('into_inner' in t) + 2 * ('"why"' in t) + ('sink_plan' in t) + ('drop' in t)
        sanitizers.miri_stage(run, b1, ev, max_cases=int(os.environ.get('VERIF_MIRI_CASES', '48')), shards=12, prefer=pref, what='writer_history_ops')
    b2 = []
    for c in cases:
        cid = c['cid']
        node, env = names.parse(c['schema'])
        c['_ne'] = (node, env)
        pe, we = ev.get('%s/p' % cid), ev.get('%s/w1' % cid)
        if pe is None or we is None or 'ok' not in pe:
            continue
        m = Model(c['meta_pre'])
        c['_model'] = m
        data = apply_steps(run, c, m, c['steps'], we, node, env, 1)
        if data is None:
            continue
        c['_bytes1'] = data
        ops = [{'id': '%s/p' % cid, 'op': 'parse_schema', 'sid': cid, 'text': json.dumps(c['schema'])}]
        if c['steps2'] is not None and m.modelable:
            # append with the ORIGINAL sync marker of the finished file (reset() draws a new one)
            try:
                from ..ref import ocf
                c['marker'] = ocf.parse(bytes.fromhex(data))['sync'].hex()
            except Exception:
                pass
            ops.append(writer_op(c, cid, c['steps2'], phase2_prefix=data))
        else:
            ops.append({'id': '%s/r' % cid, 'op': 'reader_read', 'bytes': data})
        b2.append(ops)
    ev2 = run.exec_cases(b2)
    b3 = []
    for c in cases:
        cid = c['cid']
        if '_bytes1' not in c:
            continue
        we2 = ev2.get('%s/w2' % cid)
        if we2 is not None:
            node, env = c['_ne']
            data = apply_steps(run, c, c['_model'], c['steps2'], we2, node, env, 2)
            if data is not None:
                c['_bytes2'] = data
                b3.append([{'id': '%s/r' % cid, 'op': 'reader_read', 'bytes': data}])
                run.count('append_to_histories')
    ev3 = run.exec_cases(b3) if b3 else {}
    for c in cases:
        cid = c['cid']
        if '_bytes1' not in c:
            continue
        re_ = ev3.get('%s/r' % cid) or ev2.get('%s/r' % cid)
        if re_ is None:
            continue
        m = c['_model']
        node, env = c['_ne']
        shape = (tuple(s['o'] + s['expect'][0] for s in c['steps']), (c['codec'] or {}).get('name'),
                 'none' if c['block_size'] is None else min(c['block_size'], 65), common.schema_shape(node, env), c['steps2'] is not None)
        run.eval(shape, len(m.values) > 0)
        run.sample({'schema': c['schema'], 'codec': c['codec'], 'block_size': c['block_size'],
                    'ops': [s['o'] + ('!' if s['expect'] == 'err' else '') for s in c['steps']],
                    'then_append_to': None if c['steps2'] is None else [s['o'] for s in c['steps2']], 'values_expected': len(m.values)})
        case = strip(c)
        if not m.modelable:
            run.count('histories_not_modelable_after_a_reported_violation')
            continue
        if 'ok' not in re_:
            run.violation('reader-%s' % ('panic site=' + re_['panic']['site'] if 'panic' in re_ else 'failed'), 'reading the produced file failed', case, observed=re_)
            continue
        r = re_['ok']
        if 'open_err' in r:
            run.violation('file-unreadable kind=%s' % r['open_err']['kind'], 'the produced file cannot be opened', case, observed=r)
            continue
        items = r['items']
        errs = [it for it in items if 'err' in it]
        if errs:
            run.violation('file-read-error kind=%s' % errs[0]['err']['kind'], 'reading the produced file reports an error', case,
                          observed={'n_ok': r['n_ok'], 'err': errs[0], 'expected': len(m.values)})
            continue
        got = [it['value'] for it in items]
        if len(got) != len(m.values):
            run.violation('value-count-differs %s' % ('lost' if len(got) < len(m.values) else 'extra'), 'the file yields %d values, %d were successfully appended' % (len(got), len(m.values)),
                          case, observed={'n': len(got)}, expected={'n': len(m.values)})
        else:
            for i, (a, b) in enumerate(zip(got, m.values)):
                if not avrobin.veq(a, b):
                    run.violation('value-differs', 'value %d read back differs from the value appended' % i, case, observed=a, expected=b)
                    break
        um = dict((k, v) for k, v in r['user_metadata'])
        if um != m.meta:
            run.violation('user-metadata-differs', 'user metadata read back differs from what add_user_metadata accepted', case, observed=um, expected=m.meta)
        try:
            ds = normalize.diffs(normalize.norm_dump(r['writer_schema']), normalize.norm_json(c['schema']))
            ds = [d for d in ds if not d.startswith('null-namespace-lost')]      # C10's known finding, judged there
            if ds:
                run.violation('writer-schema-differs %s' % sorted(set(ds))[0], 'writer schema read back differs from the schema given to the writer', case, observed=r['writer_schema'])
        except Exception as e:      # noqa
            run.count('writer_schema_not_comparable')
        if r['hook_bad']:
            run.violation('reader-block-bookkeeping', 'a block was reported exhausted while payload bytes were left unread', case, observed=r['hook_bad'])
        if r['resurrected']:
            run.violation('reader-yields-after-end', 'the reader yielded an item after it had returned None', case)


def replay(run, rc):
    c = rc['case']
    for k in ('step', 'phase'):
        c.pop(k, None)
    check(run, replay_case=c)
