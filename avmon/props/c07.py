"""C07 values accepted by validation are written readably; rejected ones write nothing."""
import json
import random

from . import common
from ..gen import schema as gschema
from ..gen import value as gvalue
from ..gen import mutate_value as MV
from ..ref import names, avrobin, noncanon

LEVEL = 'exploration'

_U = 'a1b2c3d4e5f60718293a4b5c6d7e8f90'
# every leaf kind as a union branch, as a record field and as array/map items (all rewrite kinds are reachable without randomness)
_LEAVES = [('boolean', {'b': True}), ('int', {'i': 5}), ('long', {'l': 5}), ('float', {'f': '0x3fc00000'}), ('double', {'d': '0x3ff8000000000000'}), ('bytes', {'B': '0102'}),
           ('string', {'s': 'x'}), ({'type': 'fixed', 'name': 'F', 'size': 2}, {'F': '0102', 'n': 2}), ({'type': 'enum', 'name': 'E', 'symbols': ['A', 'B']}, {'e': [1, 'B']}),
           ({'type': 'enum', 'name': 'Ed', 'symbols': ['A', 'B'], 'default': 'A'}, {'e': [1, 'B']}),
           ({'type': 'array', 'items': 'int'}, {'a': [{'i': 1}]}), ({'type': 'map', 'values': 'int'}, {'m': [['k', {'i': 1}]]}),
           ({'type': 'record', 'name': 'Rr', 'fields': [{'name': 'x', 'type': 'int'}, {'name': 'y', 'type': ['null', 'string']}]}, {'r': [['x', {'i': 1}], ['y', {'u': [0, None]}]]}),
           ({'type': 'int', 'logicalType': 'date'}, {'date': 3}), ({'type': 'int', 'logicalType': 'time-millis'}, {'tms': 3}), ({'type': 'long', 'logicalType': 'time-micros'}, {'tus': 3}),
           ({'type': 'long', 'logicalType': 'timestamp-millis'}, {'tsms': 3}), ({'type': 'long', 'logicalType': 'timestamp-micros'}, {'tsus': 3}), ({'type': 'long', 'logicalType': 'timestamp-nanos'}, {'tsns': 3}),
           ({'type': 'long', 'logicalType': 'local-timestamp-millis'}, {'ltsms': 3}), ({'type': 'long', 'logicalType': 'local-timestamp-micros'}, {'ltsus': 3}), ({'type': 'long', 'logicalType': 'local-timestamp-nanos'}, {'ltsns': 3}),
           ({'type': 'bytes', 'logicalType': 'decimal', 'precision': 6, 'scale': 2}, {'dec': '0102'}), ({'type': 'fixed', 'name': 'Df', 'size': 3, 'logicalType': 'decimal', 'precision': 6}, {'dec': '000102'}),
           ({'type': 'bytes', 'logicalType': 'big-decimal'}, {'bigdec': ['12', 1]}), ({'type': 'string', 'logicalType': 'uuid'}, {'uuid': _U}), ({'type': 'bytes', 'logicalType': 'uuid'}, {'uuid': _U}),
           ({'type': 'fixed', 'name': 'Uf', 'size': 16, 'logicalType': 'uuid'}, {'uuid': _U}), ({'type': 'fixed', 'name': 'Du', 'size': 12, 'logicalType': 'duration'}, {'dur': [1, 2, 3]})]
EXTRA_SCHEMAS = []
for _t, _v in _LEAVES:
    EXTRA_SCHEMAS.append((['null', _t], [{'u': [1, _v]}]))
    EXTRA_SCHEMAS.append(([_t, 'null'], [{'u': [0, _v]}]))
    EXTRA_SCHEMAS.append(({'type': 'record', 'name': 'Wrap', 'fields': [{'name': 'pre', 'type': 'long'}, {'name': 'f', 'type': _t}, {'name': 'opt', 'type': ['null', 'int']}]},
                          [{'r': [['pre', {'l': 9}], ['f', _v], ['opt', {'u': [0, None]}]]}]))
    EXTRA_SCHEMAS.append(({'type': 'array', 'items': _t}, [{'a': [_v]}]))


def check(run, replay_case=None):
    n_schemas = 500 if run.quick() else 15000
    run.rule = ('canonical generated values rewritten at ONE site into an accepted non-canonical spelling (bare value in a union, string for enum, int for long/date/time, '
                'long for timestamp types, float for double, map for record, reordered / nullable-omitted record fields, bytes/fixed for fixed/decimal/uuid/duration, uuid '
                'strings in several spellings) or a near-miss rejected form (wrong symbol, wrong size, missing/extra field, long for int, double for float, out-of-range / '
                'wrong union and enum indices); the library\'s validate() result is the premise; three validating write paths (datum, container, single-object); '
                'distinct = (mutation kind, depth of site, validate result); non-trivial = every case (each has exactly one rewritten site)')
    run.min_evaluations = 300
    run.min_distinct = 30
    run.assumptions = ['canonical-representation model avmon/ref/noncanon.py: which canonical value(s) a spelling denotes']
    if replay_case is not None:
        cases = [replay_case]
    else:
        cases = []
        bc = common.boundary_cases()
        n = 0
        # deterministic part: every rewrite site of boundary values of every boundary schema (seed independent)
        for bi, (j, vals) in enumerate(bc + EXTRA_SCHEMAS):
            node, env = names.parse(j)
            for c in vals[:3]:
                for path, kind, new, intent in MV.sites(node, env, c):
                    cases.append({'cid': 'q%d' % n, 'schema': j, 'canonical': c, 'value': MV.apply(c, path, new), 'mutation': kind, 'site_depth': len(path), 'intent': intent})
                    n += 1
        for i in range(n_schemas):
            rng = random.Random('%s/c07/%d' % (run.seed, i))
            if i % 3 == 0:
                j = bc[(i // 3) % len(bc)][0]
            else:
                j = gschema.SchemaGen(rng, gschema.Opts(max_depth=rng.choice([1, 2, 2, 3]), defaults=rng.random() < 0.3)).gen()
            node, env = names.parse(j)
            vg = gvalue.ValueGen(rng, env, boundary_bias=0.3, max_depth=4, max_len=2, max_map=1)
            c = vg.gen(node)
            ss = MV.sites(node, env, c)
            rng.shuffle(ss)
            for path, kind, new, intent in ss[:4]:
                cases.append({'cid': 'q%d' % n, 'schema': j, 'canonical': c, 'value': MV.apply(c, path, new), 'mutation': kind, 'site_depth': len(path), 'intent': intent})
                n += 1
    b1 = []
    for c in cases:
        cid = c['cid']
        b1.append([{'id': '%s/p' % cid, 'op': 'parse_schema', 'sid': cid, 'text': json.dumps(c['schema'])},
                   {'id': '%s/v' % cid, 'op': 'validate', 'sid': cid, 'value': c['value']},
                   {'id': '%s/d' % cid, 'op': 'datum_write', 'sid': cid, 'value': c['value'], 'validate': True},
                   {'id': '%s/w' % cid, 'op': 'writer_history', 'sid': cid, 'full_state': False, 'steps': [{'o': 'append_value_ref', 'v': c['value']}, {'o': 'into_inner'}]},
                   {'id': '%s/s' % cid, 'op': 'so_history', 'sid': cid, 'steps': [{'o': 'write_value_ref', 'v': c['value']}]}])
    ev = run.exec_cases(b1)
    b2 = []
    for c in cases:
        cid = c['cid']
        ve = ev.get('%s/v' % cid)
        if ve is None or 'ok' not in ve:
            if ve is not None and 'panic' in ve:
                run.violation('validate-panic site=%s' % ve['panic']['site'], 'validate panicked', c, observed=ve)
            continue
        c['_valid'] = ve['ok']['valid']
        ops = [{'id': '%s/p' % cid, 'op': 'parse_schema', 'sid': cid, 'text': json.dumps(c['schema'])}]
        de, we, se = ev.get('%s/d' % cid), ev.get('%s/w' % cid), ev.get('%s/s' % cid)
        if de and 'ok' in de and 'bytes' in de['ok']:
            ops.append({'id': '%s/rd' % cid, 'op': 'datum_read', 'sid': cid, 'bytes': de['ok']['bytes']})
        if we and 'ok' in we:
            ops.append({'id': '%s/rw' % cid, 'op': 'reader_read', 'bytes': we['ok']['bytes']})
        if se and 'ok' in se and 'ok' in se['ok']['steps'][0]['r']:
            ops.append({'id': '%s/rs' % cid, 'op': 'so_read', 'sid': cid, 'bytes': se['ok']['steps'][0]['bytes']})
        b2.append(ops)
    ev2 = run.exec_cases(b2)
    for c in cases:
        if '_valid' not in c:
            continue
        cid = c['cid']
        node, env = names.parse(c['schema'])
        valid = c['_valid']
        case = {k: v for k, v in c.items() if not k.startswith('_')}
        run.eval((c['mutation'], c['site_depth'], valid), True)
        run.hist('mutations(validate result)', '%s:%s' % (c['mutation'], 'accepted' if valid else 'rejected'))
        run.sample({'schema': c['schema'], 'value': c['value'], 'mutation': c['mutation'], 'validate': valid})
        de, we, se = ev.get('%s/d' % cid), ev.get('%s/w' % cid), ev.get('%s/s' % cid)
        mk = c['mutation']
        if valid:
            admissible = noncanon.canon(c['value'], node, env)
            if not admissible:
                run.hist('accepted_forms_outside_the_model', mk)
            # --- datum path
            for path, e, rk in (('datum', de, 'rd'), ('container', we, 'rw'), ('single-object', se, 'rs')):
                if e is None:
                    continue
                if 'panic' in e:
                    run.violation('write-panic path=%s mutation=%s site=%s' % (path, mk, e['panic']['site']), 'a validated write panicked', case, observed=e)
                    continue
                werr = write_error(path, e)
                if werr is not None:
                    run.violation('accepted-but-encode-error mutation=%s path=%s' % (mk, path), 'validation accepts the value, the %s writer then fails: %s' % (path, werr), case, observed=werr)
                    continue
                r = ev2.get('%s/%s' % (cid, rk))
                okr, got = read_back(path, r)
                if not okr:
                    run.violation('accepted-but-unreadable mutation=%s path=%s' % (mk, path), 'validation accepts the value, the %s writer writes it, the result cannot be read back' % path,
                                  case, observed=r)
                elif admissible and not any(avrobin.veq(got, a) for a in admissible):
                    run.violation('accepted-but-different-value mutation=%s path=%s' % (mk, path), 'the value read back is not the canonical form of the value written', case,
                                  observed=got, expected=admissible[:3])
        else:
            # rejected: every path returns an error and no byte of it reaches the output
            if de is not None and 'ok' in de:
                if 'bytes' in de['ok']:
                    run.violation('rejected-but-written mutation=%s path=datum' % mk, 'validation rejects the value, the validating datum writer wrote it', case, observed=de['ok'])
                elif de['ok'].get('leaked'):
                    run.violation('rejected-value-leaked-bytes mutation=%s path=datum' % mk, 'rejected value left bytes in the sink', case, observed=de['ok'])
            if we is not None and 'ok' in we:
                st = we['ok']['steps'][0]
                if 'ok' in st['r']:
                    run.violation('rejected-but-written mutation=%s path=container' % mk, 'validation rejects the value, append_value_ref accepted it', case, observed=st)
                else:
                    r = ev2.get('%s/rw' % cid)
                    if r is not None and 'ok' in r and r['ok'].get('n_ok', 0) != 0:
                        run.violation('rejected-value-in-file mutation=%s' % mk, 'a rejected append left a value in the file', case, observed=r['ok'])
            if se is not None and 'ok' in se:
                st = se['ok']['steps'][0]
                if 'ok' in st['r']:
                    run.violation('rejected-but-written mutation=%s path=single-object' % mk, 'validation rejects the value, the single-object writer wrote it', case, observed=st)
                elif st['bytes']:
                    run.violation('rejected-value-leaked-bytes mutation=%s path=single-object' % mk, 'rejected value left bytes in the sink', case, observed=st)


def write_error(path, e):
    if 'ok' not in e:
        return e.get('err')
    if path == 'datum':
        return e['ok'].get('write_err')
    if path == 'container':
        for st in e['ok']['steps']:
            if 'err' in st['r']:
                return st['r']['err']
        return None
    st = e['ok']['steps'][0]
    return st['r'].get('err')


def read_back(path, r):
    """(readable?, value)"""
    if r is None or 'ok' not in r:
        return False, None
    o = r['ok']
    if path == 'datum':
        it = o['items'][0]
        return ('value' in it), it.get('value')
    if path == 'container':
        if 'open_err' in o or len(o['items']) != 1 or 'value' not in o['items'][0]:
            return False, None
        return True, o['items'][0]['value']
    return ('value' in o), o.get('value')


def replay(run, rc):
    check(run, replay_case=rc['case'])
