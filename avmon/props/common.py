"""Shared workload pieces: (schema, values) case generation with a deterministic boundary set."""
import json
import random

from ..gen import schema as gschema
from ..gen import value as gvalue
from ..ref import names, avrobin


def schema_shape(node, env, depth=0, seen=None):
    """schema-shape signature (kinds only, names erased)"""
    seen = seen or set()
    k = node['k']
    lg = node.get('logical', {}).get('t')
    if k == 'ref':
        if node['full'] in seen or depth > 6:
            return 'ref'
        return schema_shape(env[node['full']], env, depth + 1, seen | {node['full']})
    if lg:
        return '%s@%s' % (lg, k)
    if k == 'array':
        return 'a<%s>' % schema_shape(node['items'], env, depth + 1, seen)
    if k == 'map':
        return 'm<%s>' % schema_shape(node['values'], env, depth + 1, seen)
    if k == 'union':
        return 'u[%s]' % '|'.join(schema_shape(b, env, depth + 1, seen) for b in node['branches'])
    if k == 'record':
        seen = seen | {node['full']}
        return 'r(%s)' % ','.join(schema_shape(f['type'], env, depth + 1, seen) for f in node['fields'])
    if k == 'enum':
        return 'e%d' % len(node['symbols'])
    if k == 'fixed':
        return 'F%d' % node['size']
    return k


def boundary_cases():
    """deterministic (schema json, [values]) list hitting every boundary the properties name"""
    out = []
    V = gvalue
    out.append(('null', [None]))
    out.append(('boolean', [{'b': True}, {'b': False}]))
    out.append(('int', [{'i': x} for x in V.INT_B]))
    out.append(('long', [{'l': x} for x in V.LONG_B]))
    out.append(('float', [{'f': '0x%08x' % x} for x in V.F32_B]))
    out.append(('double', [{'d': '0x%016x' % x} for x in V.F64_B]))
    out.append(('bytes', [{'B': ''}, {'B': '00'}, {'B': 'ff' * 63}, {'B': 'ab' * 64}, {'B': '01' * 8192}]))
    out.append(('string', [{'s': s} for s in V.STR_B]))
    for lt, base in gschema.LOGICAL_SIMPLE:
        tag = {'date': 'date', 'time-millis': 'tms', 'time-micros': 'tus', 'timestamp-millis': 'tsms',
               'timestamp-micros': 'tsus', 'timestamp-nanos': 'tsns', 'local-timestamp-millis': 'ltsms',
               'local-timestamp-micros': 'ltsus', 'local-timestamp-nanos': 'ltsns'}[lt]
        tab = V.INT_B if base == 'int' else V.LONG_B
        out.append(({'type': base, 'logicalType': lt}, [{tag: x} for x in tab]))
    # decimals: bytes-backed and every fixed width 1..16, negative and maximal-width values
    out.append(({'type': 'bytes', 'logicalType': 'decimal', 'precision': 30, 'scale': 3},
                [{'dec': avrobin.signed_be(n).hex()} for n in (0, 1, -1, 127, 128, -128, -129, 255, 256, -256, -257, 10 ** 30 - 1, -(10 ** 30 - 1))]
                + [{'dec': '0000007f'}, {'dec': 'ffffff80'}, {'dec': 'ff'}]))
    import math
    for size in range(1, 17):
        prec = max(1, int(math.floor(math.log10(2.0 ** (8 * size - 1) - 1))))
        lim = 10 ** prec - 1
        vals = sorted(set([0, 1, -1, lim, -lim, lim // 2, -(lim // 2), 127 if lim >= 127 else lim, -128 if lim >= 128 else -lim]))
        out.append(({'type': 'fixed', 'name': 'D%d' % size, 'size': size, 'logicalType': 'decimal', 'precision': prec, 'scale': prec // 2},
                    [{'dec': n.to_bytes(size, 'big', signed=True).hex()} for n in vals]))
    out.append(({'type': 'bytes', 'logicalType': 'big-decimal'},
                [{'bigdec': [str(n), s]} for n in (0, 1, -1, 127, 128, -128, -129, 10 ** 40, -10 ** 40) for s in (0, 2, 20, -2)] +
                # the scale is a long: every varint length boundary of it, beyond the i32 range too
                [{'bigdec': ['1421', s]} for s in (63, 64, -64, -65, 8191, 8192, 2 ** 31 - 1, 2 ** 31, -2 ** 31, -2 ** 31 - 1, 2 ** 62, 2 ** 63 - 1, -2 ** 63)]))
    uu = ['00' * 16, 'ff' * 16, '0123456789abcdef0123456789abcdef', 'a1b2c3d4e5f60718293a4b5c6d7e8f90']
    out.append(({'type': 'string', 'logicalType': 'uuid'}, [{'uuid': u} for u in uu]))
    out.append(({'type': 'bytes', 'logicalType': 'uuid'}, [{'uuid': u} for u in uu]))
    out.append(({'type': 'fixed', 'name': 'U', 'size': 16, 'logicalType': 'uuid'}, [{'uuid': u} for u in uu]))
    out.append(({'type': 'fixed', 'name': 'Du', 'size': 12, 'logicalType': 'duration'},
                [{'dur': d} for d in ([0, 0, 0], [1, 2, 3], [2 ** 32 - 1] * 3, [2 ** 31, 255, 256])]))
    out.append(({'type': 'fixed', 'name': 'F0', 'size': 0}, [{'F': '', 'n': 0}]))
    out.append(({'type': 'fixed', 'name': 'F5', 'namespace': 'n.s', 'size': 5}, [{'F': '0102030405', 'n': 5}]))
    out.append(({'type': 'enum', 'name': 'E', 'symbols': ['A', 'B', 'C']}, [{'e': [i, s]} for i, s in enumerate('ABC')]))
    # containers: empty and multi-element, zero-width items
    for item, vals in (('null', [None]), ('int', [{'i': 64}, {'i': -65}]), ('string', [{'s': ''}, {'s': 'é'}]),
                       ({'type': 'array', 'items': 'long'}, [{'a': []}, {'a': [{'l': 2 ** 62}]}])):
        out.append(({'type': 'array', 'items': item},
                    [{'a': []}, {'a': vals[:1]}, {'a': vals * 3}, {'a': (vals * 70)[:130]}]))
        out.append(({'type': 'map', 'values': item},
                    [{'m': []}, {'m': [['k', vals[0]]]}, {'m': [['', vals[0]], ['é', vals[-1]], ['zz', vals[0]]]},
                     {'m': [['k%03d' % i, vals[i % len(vals)]] for i in range(70)]}]))
    # unions: every branch, incl. named and logical branches
    u = ['null', 'boolean', 'int', 'long', 'float', 'double', 'bytes', 'string',
         {'type': 'array', 'items': 'int'}, {'type': 'map', 'values': 'string'},
         {'type': 'record', 'name': 'R', 'fields': [{'name': 'x', 'type': 'int'}]},
         {'type': 'enum', 'name': 'E2', 'symbols': ['P', 'Q']}, {'type': 'fixed', 'name': 'F2', 'size': 2}]
    uv = [None, {'b': True}, {'i': -1}, {'l': 2 ** 40}, {'f': '0x7fc00001'}, {'d': '0x8000000000000000'}, {'B': 'ff00'},
          {'s': 'é'}, {'a': [{'i': 1}]}, {'m': [['k', {'s': 'v'}]]}, {'r': [['x', {'i': 7}]]}, {'e': [1, 'Q']}, {'F': 'abcd', 'n': 2}]
    out.append((u, [{'u': [i, v]} for i, v in enumerate(uv)]))
    out.append((['string', 'null'], [{'u': [0, {'s': 'x'}]}, {'u': [1, None]}]))
    out.append(([{'type': 'int', 'logicalType': 'date'}, 'null', {'type': 'string', 'logicalType': 'uuid'}],
                [{'u': [0, {'date': -1}]}, {'u': [1, None]}, {'u': [2, {'uuid': uu[2]}]}]))
    # recursion + namespaces + references
    ll = {'type': 'record', 'name': 'LongList', 'namespace': 'com.x', 'fields': [
        {'name': 'value', 'type': 'long'}, {'name': 'next', 'type': ['null', 'LongList']}]}

    def chain(n):
        v = {'u': [0, None]}
        for i in range(n):
            v = {'u': [1, {'r': [['value', {'l': i * 1000003}], ['next', v]]}]}
        return v['u'][1]
    out.append((ll, [chain(1), chain(2), chain(9)]))
    tree = {'type': 'record', 'name': 'Tree', 'fields': [
        {'name': 'kids', 'type': {'type': 'array', 'items': 'Tree'}},
        {'name': 'byname', 'type': {'type': 'map', 'values': ['null', 'Tree', 'string']}}]}
    leaf = {'r': [['kids', {'a': []}], ['byname', {'m': []}]]}
    out.append((tree, [leaf, {'r': [['kids', {'a': [leaf, leaf]}], ['byname', {'m': [['a', {'u': [1, leaf]}], ['b', {'u': [2, {'s': 'x'}]}], ['c', {'u': [0, None]}]]}]]}]))
    nsd = {'type': 'record', 'name': 'Outer', 'namespace': 'a.b', 'fields': [
        {'name': 'e', 'type': {'type': 'enum', 'name': 'Inner', 'symbols': ['X', 'Y']}},
        {'name': 'e2', 'type': 'Inner'}, {'name': 'e3', 'type': 'a.b.Inner'},
        {'name': 'o', 'type': {'type': 'record', 'name': 'c.d.Other', 'fields': [
            {'name': 'f', 'type': {'type': 'fixed', 'name': 'Fx', 'size': 1}}, {'name': 'g', 'type': 'c.d.Fx'}, {'name': 'h', 'type': 'a.b.Inner'}]}},
        {'name': 'p', 'type': ['null', 'c.d.Other']}]}
    other = {'r': [['f', {'F': '01', 'n': 1}], ['g', {'F': 'fe', 'n': 1}], ['h', {'e': [1, 'Y']}]]}
    out.append((nsd, [{'r': [['e', {'e': [0, 'X']}], ['e2', {'e': [1, 'Y']}], ['e3', {'e': [0, 'X']}], ['o', other], ['p', {'u': [1, other]}]]},
                      {'r': [['e', {'e': [1, 'Y']}], ['e2', {'e': [0, 'X']}], ['e3', {'e': [1, 'Y']}], ['o', other], ['p', {'u': [0, None]}]]}]))
    return out


def random_cases(seed, n, opts=None, values_per_schema=4, max_depth=None):
    """yields (schema json, node, env, [values])"""
    for i in range(n):
        rng = random.Random('%s/s/%d' % (seed, i))
        o = opts or gschema.Opts()
        if max_depth is not None:
            o.max_depth = max_depth
        g = gschema.SchemaGen(rng, o)
        j = g.gen(0, None)
        try:
            node, env = names.parse(j)
        except names.SchemaError as e:      # generator bug: must not happen
            raise AssertionError('generator produced a schema the reference rejects: %s: %s' % (e, json.dumps(j)))
        vg = gvalue.ValueGen(random.Random('%s/v/%d' % (seed, i)), env)
        vals = [vg.gen(node) for _ in range(values_per_schema)]
        yield j, node, env, vals


def all_cases(seed, n_random, opts=None, values_per_schema=4):
    for j, vals in boundary_cases():
        node, env = names.parse(j)
        yield j, node, env, vals, 'boundary'
    for j, node, env, vals in random_cases(seed, n_random, opts, values_per_schema):
        yield j, node, env, vals, 'random'


def name_resolution_cases():
    """schemas in which the same simple name exists in several namespaces and is referred to by simple and by full name,
    also recursively (the specification: an unqualified reference takes the namespace of the most tightly enclosing named type)"""
    def rec(name, fields, **kw):
        d = {'type': 'record', 'name': name, 'fields': [{'name': n, 'type': t} for n, t in fields]}
        d.update(kw)
        return d
    out = []
    # a null-namespace Node, then list.Node referring to itself by its simple name
    out.append([rec('Node', [('v', 'int')]), rec('Node', [('v', 'long'), ('next', ['null', 'Node'])], namespace='list')])
    out.append(rec('Top', [('plain', rec('Node', [('v', 'int')])),
                           ('linked', rec('Node', [('v', 'long'), ('next', ['null', 'Node']), ('kids', {'type': 'array', 'items': 'Node'})], namespace='list')),
                           ('again', 'Node'), ('again2', 'list.Node')]))
    # inherited namespace vs dotted name, both called Node
    out.append(rec('Outer', [('n1', rec('Node', [('v', 'int')])),
                             ('inner', rec('b.Node', [('next', ['null', 'Node']), ('other', 'a.Node'), ('m', {'type': 'map', 'values': 'b.Node'})])),
                             ('back', 'Node'), ('far', 'b.Node')], namespace='a'))
    # fixed F in the null namespace and n.F, referenced by simple name from inside n
    out.append(rec('T', [('a', {'type': 'fixed', 'name': 'F', 'size': 2}),
                         ('b', rec('Holder', [('f', {'type': 'fixed', 'name': 'F', 'size': 3}), ('g', 'F'), ('h', 'n.F')], namespace='n')),
                         ('c', 'F')]))
    # mutual recursion across namespaces with self references by simple name
    out.append(rec('A', [('b', ['null', rec('q.B', [('a', ['null', 'p.A']), ('self', ['null', 'B']), ('e', {'type': 'enum', 'name': 'A', 'symbols': ['X']}), ('e2', 'A')])]),
                         ('me', ['null', 'A'])], namespace='p'))
    # enum of the same simple name at three levels
    out.append(rec('R', [('e0', {'type': 'enum', 'name': 'E', 'symbols': ['A']}),
                         ('r1', rec('R1', [('e1', {'type': 'enum', 'name': 'E', 'symbols': ['B']}), ('u1', 'E'),
                                           ('r2', rec('R2', [('e2', {'type': 'enum', 'name': 'E', 'symbols': ['C']}), ('u2', 'E'), ('u1', 'x.E')], namespace='x.y'))], namespace='x')),
                         ('u0', 'E')]))
    return out
