"""C08 reading with a different reader schema follows the specification's resolution rules."""
import json
import random

from . import common
from ..gen import schema as gschema
from ..gen import value as gvalue
from ..gen import evolve as EV
from ..ref import names, avrobin, resolve as RS

LEVEL = 'exploration'


BASES = [
    'int', 'long', 'float', 'string', 'bytes', ['null', 'int'], ['int', 'string', 'null'], ['long'],
    {'type': 'array', 'items': 'int'}, {'type': 'map', 'values': 'long'}, {'type': 'enum', 'name': 'E', 'symbols': ['A', 'B', 'C']},
    {'type': 'enum', 'name': 'Ed', 'symbols': ['A', 'B', 'C'], 'default': 'A'},
    {'type': 'record', 'name': 'R', 'fields': [{'name': 'a', 'type': 'int'}, {'name': 'b', 'type': 'string'}, {'name': 'c', 'type': ['null', 'long']}]},
    {'type': 'record', 'name': 'R2', 'namespace': 'n.s', 'fields': [{'name': 'e', 'type': {'type': 'enum', 'name': 'En', 'symbols': ['X', 'Y']}}, {'name': 'l', 'type': {'type': 'array', 'items': 'float'}},
                                                               {'name': 'u', 'type': ['string', 'int']}, {'name': 'd', 'type': 'double'}]},
    {'type': 'record', 'name': 'R3', 'fields': [{'name': 'x', 'type': 'bytes'}, {'name': 'dec', 'type': {'type': 'bytes', 'logicalType': 'decimal', 'precision': 6, 'scale': 2}},
                                                {'name': 't', 'type': {'type': 'long', 'logicalType': 'timestamp-millis'}}]},
    [{'type': 'record', 'name': 'A', 'fields': [{'name': 'x', 'type': 'int'}]}, {'type': 'record', 'name': 'B', 'fields': [{'name': 'y', 'type': 'string'}]}, 'null'],
    [{'type': 'record', 'name': 'A', 'fields': [{'name': 'x', 'type': 'int'}]}, {'type': 'record', 'name': 'B', 'fields': [{'name': 'x', 'type': 'int'}, {'name': 'y', 'type': 'string'}]}],
    {'type': 'record', 'name': 'L', 'fields': [{'name': 'v', 'type': 'long'}, {'name': 'next', 'type': ['null', 'L']}]},
    {'type': 'map', 'values': {'type': 'record', 'name': 'Mv', 'fields': [{'name': 'k', 'type': 'float'}]}},
]


def deterministic_pairs():
    """one pair per (evolution kind, base schema) with seed-independent randomness"""
    out = []
    for bi, j in enumerate(BASES):
        for kind in EV.KINDS:
            for rep in range(2):
                rng = random.Random('det/%d/%s/%d' % (bi, kind, rep))
                r = EV.evolve_once(j, rng, [0], force_kind=kind)
                if r is None:
                    continue
                rj, label, safe = r
                try:
                    wn, wenv = names.parse(j)
                    names.parse(rj)
                except names.SchemaError:
                    continue
                vg = gvalue.ValueGen(rng, wenv, boundary_bias=0.4, max_depth=4, max_len=2, max_map=2)
                vals = [vg.gen(wn) for _ in range(4)]
                out.append({'cid': 'd%d' % len(out), 'base': bi, 'writer': j, 'reader': rj, 'labels': [label], 'safe': safe, 'values': vals})
    return out


def make_pairs(run, n, tag='c08'):
    out = []
    i = 0
    tries = 0
    while len(out) < n and tries < n * 4:
        tries += 1
        rng = random.Random('%s/%s/%d' % (run.seed, tag, tries))
        j = gschema.SchemaGen(rng, gschema.Opts(max_depth=rng.choice([0, 1, 2, 2, 3]), recursion=rng.random() < 0.3)).gen()
        e = EV.evolve(j, rng)
        if e is None:
            continue
        rj, labels, safe = e
        try:
            wn, wenv = names.parse(j)
            rn, renv = names.parse(rj)
        except names.SchemaError:
            continue
        vg = gvalue.ValueGen(rng, wenv, boundary_bias=0.4, max_depth=4, max_len=2, max_map=2)
        vals = [vg.gen(wn) for _ in range(3)]
        out.append({'cid': 'r%d' % len(out), 'writer': j, 'reader': rj, 'labels': labels, 'safe': safe, 'values': vals})
    return out


_KNOWN = None


def pick_sig(prefix, labels, case=None):
    """Deterministic (seed-independent) pairs get a fine-grained signature naming the evolution step and the
    base schema, so that any new misbehaviour on them is a new signature. Randomly generated pairs are
    classified by root-cause class only (a closed set), because their step combinations are unbounded."""
    if case is not None and str(case.get('cid', '')).startswith('d') and 'base' in case:
        return '%s step=%s base=%d' % (prefix, labels[0], case['base'])
    # closed class space for random pairs: drop the kind details
    import re
    return re.sub(r'why=(no-promotion|no-reader-union-branch-matches|named-types-do-not-match):\S+', r'why=\1', prefix)


def last(d):
    return d.rpartition('.')[2] if not d.endswith('u.index') else 'u.index'


def sig_labels(labels):
    return '+'.join(sorted(set(labels)))


def check(run, replay_case=None):
    n = 1000 if run.quick() else 40000
    run.rule = ('(W, R) pairs from generated schemas by 1-3 evolution steps {promote, add/remove/reorder/rename-with-alias fields, defaults of every type, add/remove/reorder '
                'enum symbols (with/without reader default) and union branches, wrap in / unwrap from a union, rename a type with a reader alias, narrowing, kind change, '
                'missing default} x 3 values of W; three entry points (GenericDatumReader with reader schema, Reader::builder().reader_schema, Value::resolve); oracle: '
                'reference resolution returning the SET of admissible results; distinct = (evolution labels, value shape); non-trivial = value has a non-null leaf')
    run.min_evaluations = 300
    run.min_distinct = 60
    run.assumptions = ['reference rules avmon/ref/resolve.py; where the specification is ambiguous (reader-union branch: first match vs exact-then-first) every reading is admitted; '
                       'pairs the rules do not decide (logical-type changes other than identity) are skipped, not judged']
    cases = [replay_case] if replay_case is not None else deterministic_pairs() + make_pairs(run, n)
    b1 = []
    for c in cases:
        cid = c['cid']
        ops = [{'id': '%s/pw' % cid, 'op': 'parse_schema', 'sid': cid + 'w', 'text': json.dumps(c['writer'])},
               {'id': '%s/pr' % cid, 'op': 'parse_schema', 'sid': cid + 'r', 'text': json.dumps(c['reader'])}]
        wn, wenv = names.parse(c['writer'])
        steps = [{'o': 'append_value_ref', 'v': v} for v in c['values']] + [{'o': 'into_inner'}]
        ops.append({'id': '%s/f' % cid, 'op': 'writer_history', 'sid': cid + 'w', 'steps': steps, 'full_state': False})
        for i, v in enumerate(c['values']):
            b = avrobin.encode(wn, wenv, v)
            ops.append({'id': '%s/d%d' % (cid, i), 'op': 'datum_read', 'sid': cid + 'w', 'reader_sid': cid + 'r', 'bytes': b.hex()})
            ops.append({'id': '%s/v%d' % (cid, i), 'op': 'resolve', 'sid': cid + 'r', 'value': v, 'twice': True})
        b1.append(ops)
    ev = run.exec_cases(b1)
    b2 = []
    for c in cases:
        cid = c['cid']
        fe = ev.get('%s/f' % cid)
        if fe is not None and 'ok' in fe and 'ok' in (ev.get('%s/pr' % cid) or {}):
            b2.append([{'id': '%s/pr' % cid, 'op': 'parse_schema', 'sid': cid + 'r', 'text': json.dumps(c['reader'])},
                       {'id': '%s/c' % cid, 'op': 'reader_read', 'bytes': fe['ok']['bytes'], 'reader_sid': cid + 'r'}])
    ev2 = run.exec_cases(b2)
    for c in cases:
        cid = c['cid']
        if 'ok' not in (ev.get('%s/pw' % cid) or {}) or 'ok' not in (ev.get('%s/pr' % cid) or {}):
            run.count('pairs_with_a_schema_the_parser_rejects')
            continue
        wn, wenv = names.parse(c['writer'])
        rn, renv = names.parse(c['reader'])
        lab = sig_labels(c['labels'])
        ce = ev2.get('%s/c' % cid)
        for i, v in enumerate(c['values']):
            case = dict({k: x for k, x in c.items()}, value_index=i)
            try:
                expected = RS.resolve(wn, wenv, rn, renv, v)
                exp_err = False
            except RS.NoResult as nr:
                expected, exp_err = None, True
                why = nr.reason
            except RS.Ambiguous:
                run.count('triples_not_decided_by_the_rules(skipped)')
                continue
            run.eval((lab, gvalue.shape(v), exp_err), gvalue.nontrivial(v))
            for l in c['labels']:
                run.hist('evolution_steps', l.split(':')[0])
            if i == 0:
                run.sample({'writer': c['writer'], 'reader': c['reader'], 'steps': c['labels'], 'value': v, 'expected': 'error' if exp_err else expected[:2]})
            results = {}
            de = ev.get('%s/d%d' % (cid, i))
            if de is not None:
                results['datum-reader'] = outcome_datum(de)
            ve = ev.get('%s/v%d' % (cid, i))
            if ve is not None:
                results['value-resolve'] = outcome_resolve(ve)
            if ce is not None and 'ok' in ce and 'items' in ce['ok'] and len(ce['ok']['items']) > i:
                it = ce['ok']['items'][i]
                if all('value' in x for x in ce['ok']['items'][:i]):
                    results['container-reader'] = ('ok', it['value']) if 'value' in it else ('err', it.get('err', {}).get('kind'))
            elif ce is not None and 'ok' in ce and 'open_err' in ce['ok']:
                results['container-reader'] = ('err', ce['ok']['open_err']['kind'])
            for entry, (st, val) in results.items():
                if st == 'panic':
                    run.violation('panic entry=%s site=%s' % (entry, val), 'resolution panicked', case, observed=val)
                elif exp_err and st == 'ok':
                    run.violation(pick_sig('value-where-rules-give-no-result why=%s entry=%s' % (why, entry), c['labels'], c), 'the resolution rules give no result for this datum (%s; steps %s), the library returned a value' % (why, lab),
                                  case, observed=val)
                elif not exp_err and st == 'err':
                    run.violation(pick_sig('error-where-rules-give-a-result error=%s entry=%s' % (val, entry), c['labels'], c), 'the rules prescribe a value (steps %s), the library reports an error (%s)' % (lab, val),
                                  case, observed=val, expected=expected[:2])
                elif not exp_err and not any(avrobin.veq(val, x) for x in expected):
                    from .c01 import diff_kind
                    run.violation(pick_sig('wrong-result at=%s entry=%s' % (last(diff_kind(expected[0], val)), entry), c['labels'], c), 'the library resolves to a different value than the rules prescribe (steps %s)' % lab, case,
                                  observed=val, expected=expected[:2])
            # result validates against R; resolving again changes nothing
            # (only where the rules prescribe a result: a value returned where they give none is reported above, its follow-ups are not judged)
            if not exp_err and ve is not None and 'ok' in ve and 'value' in ve['ok']:
                if not ve['ok'].get('valid', True):
                    run.violation(pick_sig('resolved-value-does-not-validate', c['labels'], c), 'the resolved value does not validate against the reader schema', case, observed=ve['ok'])
                ag = ve['ok'].get('again')
                if ag is not None:
                    if 'value' not in ag:
                        run.violation(pick_sig('resolve-not-idempotent(error)', c['labels'], c), 'resolving an already resolved value fails', case, observed=ag)
                    elif not avrobin.veq(ag['value'], ve['ok']['value']):
                        run.violation(pick_sig('resolve-not-idempotent', c['labels'], c), 'resolving an already resolved value changes it', case, observed=ag, expected=ve['ok']['value'])
            # the three entry points agree
            oks = {e: r for e, r in results.items() if r[0] == 'ok'}
            if len(oks) > 1:
                vals = list(oks.items())
                for e2, r2 in vals[1:]:
                    if not avrobin.veq(vals[0][1][1], r2[1]):
                        run.violation(pick_sig('entry-points-disagree %s vs %s at=%s' % (vals[0][0], e2, last(__import__('avmon.props.c01', fromlist=['diff_kind']).diff_kind(vals[0][1][1], r2[1]))), c['labels'], c), 'two entry points resolve the same datum differently', case,
                                      observed={vals[0][0]: vals[0][1][1], e2: r2[1]})
            sts = set(r[0] for r in results.values())
            if 'ok' in sts and 'err' in sts:
                run.violation(pick_sig('entry-points-disagree-on-success %s' % '+'.join(sorted('%s=%s' % (e, r[0]) for e, r in results.items())), c['labels'], c), 'one entry point returns a value where another reports an error', case,
                              observed={e: r[0] for e, r in results.items()})


def outcome_datum(e):
    if 'panic' in e:
        return ('panic', e['panic']['site'])
    if 'ok' not in e:
        return ('err', (e.get('err') or {}).get('kind'))
    it = e['ok']['items'][0]
    return ('ok', it['value']) if 'value' in it else ('err', it['err']['kind'])


def outcome_resolve(e):
    if 'panic' in e:
        return ('panic', e['panic']['site'])
    if 'ok' in e and 'value' in e['ok']:
        return ('ok', e['ok']['value'])
    return ('err', (e.get('err') or {}).get('kind'))


def replay(run, rc):
    c = rc['case']
    c.pop('value_index', None)
    check(run, replay_case=c)
