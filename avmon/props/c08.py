"""C08 reading with a different reader schema follows the specification's resolution rules."""
import json
import random

from . import common
from ..gen import schema as gschema
from ..gen import value as gvalue
from ..gen import evolve as EV
from ..ref import names, avrobin, resolve as RS

LEVEL = 'exploration'


def make_pairs(run, n, tag='c08'):
    out = []
    i = 0
    tries = 0
    while len(out) < n and tries < n * 4:
        tries += 1
        rng = random.Random('%s/%s/%d' % (run.seed, tag, tries))
        j = gschema.SchemaGen(rng, gschema.Opts(max_depth=rng.choice([0, 1, 2, 2, 3]), recursion=rng.random() < 0.3)).gen()
        e = EV.evolve(j, rng)
        if e is None:
            continue
        rj, labels, safe = e
        try:
            wn, wenv = names.parse(j)
            rn, renv = names.parse(rj)
        except names.SchemaError:
            continue
        vg = gvalue.ValueGen(rng, wenv, boundary_bias=0.4, max_depth=4, max_len=2, max_map=2)
        vals = [vg.gen(wn) for _ in range(3)]
        out.append({'cid': 'r%d' % len(out), 'writer': j, 'reader': rj, 'labels': labels, 'safe': safe, 'values': vals})
    return out


def sig_labels(labels):
    return '+'.join(sorted(set(labels)))


def check(run, replay_case=None):
    n = 1000 if run.quick() else 40000
    run.rule = ('(W, R) pairs from generated schemas by 1-3 evolution steps {promote, add/remove/reorder/rename-with-alias fields, defaults of every type, add/remove/reorder '
                'enum symbols (with/without reader default) and union branches, wrap in / unwrap from a union, rename a type with a reader alias, narrowing, kind change, '
                'missing default} x 3 values of W; three entry points (GenericDatumReader with reader schema, Reader::builder().reader_schema, Value::resolve); oracle: '
                'reference resolution returning the SET of admissible results; distinct = (evolution labels, value shape); non-trivial = value has a non-null leaf')
    run.min_evaluations = 300
    run.min_distinct = 60
    run.assumptions = ['reference rules avmon/ref/resolve.py; where the specification is ambiguous (reader-union branch: first match vs exact-then-first) every reading is admitted; '
                       'pairs the rules do not decide (logical-type changes other than identity) are skipped, not judged']
    cases = [replay_case] if replay_case is not None else make_pairs(run, n)
    b1 = []
    for c in cases:
        cid = c['cid']
        ops = [{'id': '%s/pw' % cid, 'op': 'parse_schema', 'sid': cid + 'w', 'text': json.dumps(c['writer'])},
               {'id': '%s/pr' % cid, 'op': 'parse_schema', 'sid': cid + 'r', 'text': json.dumps(c['reader'])}]
        wn, wenv = names.parse(c['writer'])
        steps = [{'o': 'append_value_ref', 'v': v} for v in c['values']] + [{'o': 'into_inner'}]
        ops.append({'id': '%s/f' % cid, 'op': 'writer_history', 'sid': cid + 'w', 'steps': steps, 'full_state': False})
        for i, v in enumerate(c['values']):
            b = avrobin.encode(wn, wenv, v)
            ops.append({'id': '%s/d%d' % (cid, i), 'op': 'datum_read', 'sid': cid + 'w', 'reader_sid': cid + 'r', 'bytes': b.hex()})
            ops.append({'id': '%s/v%d' % (cid, i), 'op': 'resolve', 'sid': cid + 'r', 'value': v, 'twice': True})
        b1.append(ops)
    ev = run.exec_cases(b1)
    b2 = []
    for c in cases:
        cid = c['cid']
        fe = ev.get('%s/f' % cid)
        if fe is not None and 'ok' in fe and 'ok' in (ev.get('%s/pr' % cid) or {}):
            b2.append([{'id': '%s/pr' % cid, 'op': 'parse_schema', 'sid': cid + 'r', 'text': json.dumps(c['reader'])},
                       {'id': '%s/c' % cid, 'op': 'reader_read', 'bytes': fe['ok']['bytes'], 'reader_sid': cid + 'r'}])
    ev2 = run.exec_cases(b2)
    for c in cases:
        cid = c['cid']
        if 'ok' not in (ev.get('%s/pw' % cid) or {}) or 'ok' not in (ev.get('%s/pr' % cid) or {}):
            run.count('pairs_with_a_schema_the_parser_rejects')
            continue
        wn, wenv = names.parse(c['writer'])
        rn, renv = names.parse(c['reader'])
        lab = sig_labels(c['labels'])
        ce = ev2.get('%s/c' % cid)
        for i, v in enumerate(c['values']):
            case = dict({k: x for k, x in c.items()}, value_index=i)
            try:
                expected = RS.resolve(wn, wenv, rn, renv, v)
                exp_err = False
            except RS.NoResult:
                expected, exp_err = None, True
            except RS.Ambiguous:
                run.count('triples_not_decided_by_the_rules(skipped)')
                continue
            run.eval((lab, gvalue.shape(v), exp_err), gvalue.nontrivial(v))
            for l in c['labels']:
                run.hist('evolution_steps', l.split(':')[0])
            if i == 0:
                run.sample({'writer': c['writer'], 'reader': c['reader'], 'steps': c['labels'], 'value': v, 'expected': 'error' if exp_err else expected[:2]})
            results = {}
            de = ev.get('%s/d%d' % (cid, i))
            if de is not None:
                results['datum-reader'] = outcome_datum(de)
            ve = ev.get('%s/v%d' % (cid, i))
            if ve is not None:
                results['value-resolve'] = outcome_resolve(ve)
            if ce is not None and 'ok' in ce and 'items' in ce['ok'] and len(ce['ok']['items']) > i:
                it = ce['ok']['items'][i]
                if all('value' in x for x in ce['ok']['items'][:i]):
                    results['container-reader'] = ('ok', it['value']) if 'value' in it else ('err', it.get('err', {}).get('kind'))
            elif ce is not None and 'ok' in ce and 'open_err' in ce['ok']:
                results['container-reader'] = ('err', ce['ok']['open_err']['kind'])
            for entry, (st, val) in results.items():
                if st == 'panic':
                    run.violation('panic entry=%s site=%s' % (entry, val), 'resolution panicked', case, observed=val)
                elif exp_err and st == 'ok':
                    run.violation('value-where-rules-give-no-result steps=%s entry=%s' % (lab, entry), 'the resolution rules give no result for this datum, the library returned a value',
                                  case, observed=val)
                elif not exp_err and st == 'err':
                    run.violation('error-where-rules-give-a-result steps=%s entry=%s' % (lab, entry), 'the rules prescribe a value, the library reports an error (%s)' % val,
                                  case, observed=val, expected=expected[:2])
                elif not exp_err and not any(avrobin.veq(val, x) for x in expected):
                    run.violation('wrong-result steps=%s entry=%s' % (lab, entry), 'the library resolves to a different value than the rules prescribe', case,
                                  observed=val, expected=expected[:2])
            # result validates against R; resolving again changes nothing
            if ve is not None and 'ok' in ve and 'value' in ve['ok']:
                if not ve['ok'].get('valid', True):
                    run.violation('resolved-value-does-not-validate steps=%s' % lab, 'the resolved value does not validate against the reader schema', case, observed=ve['ok'])
                ag = ve['ok'].get('again')
                if ag is not None:
                    if 'value' not in ag:
                        run.violation('resolve-not-idempotent(error) steps=%s' % lab, 'resolving an already resolved value fails', case, observed=ag)
                    elif not avrobin.veq(ag['value'], ve['ok']['value']):
                        run.violation('resolve-not-idempotent steps=%s' % lab, 'resolving an already resolved value changes it', case, observed=ag, expected=ve['ok']['value'])
            # the three entry points agree
            oks = {e: r for e, r in results.items() if r[0] == 'ok'}
            if len(oks) > 1:
                vals = list(oks.items())
                for e2, r2 in vals[1:]:
                    if not avrobin.veq(vals[0][1][1], r2[1]):
                        run.violation('entry-points-disagree %s vs %s steps=%s' % (vals[0][0], e2, lab), 'two entry points resolve the same datum differently', case,
                                      observed={vals[0][0]: vals[0][1][1], e2: r2[1]})
            sts = set(r[0] for r in results.values())
            if 'ok' in sts and 'err' in sts:
                run.violation('entry-points-disagree-on-success steps=%s' % lab, 'one entry point returns a value where another reports an error', case,
                              observed={e: r[0] for e, r in results.items()})


def outcome_datum(e):
    if 'panic' in e:
        return ('panic', e['panic']['site'])
    if 'ok' not in e:
        return ('err', (e.get('err') or {}).get('kind'))
    it = e['ok']['items'][0]
    return ('ok', it['value']) if 'value' in it else ('err', it['err']['kind'])


def outcome_resolve(e):
    if 'panic' in e:
        return ('panic', e['panic']['site'])
    if 'ok' in e and 'value' in e['ok']:
        return ('ok', e['ok']['value'])
    return ('err', (e.get('err') or {}).get('kind'))


def replay(run, rc):
    c = rc['case']
    c.pop('value_index', None)
    check(run, replay_case=c)
