"""C04 object container files conform to the specified layout in both directions."""
import json
import random

from . import common
from ..gen import schema as gschema
from ..gen import value as gvalue
from ..gen import history as H
from ..ref import names, avrobin, ocf, normalize

LEVEL = 'exploration'
CODECS = ['null', 'deflate', 'snappy', 'bzip2', 'xz', 'zstandard']


def partitions(rng, vals, cls):
    if cls == 'header-only':
        return []
    if cls == 'one-per-block':
        return [[v] for v in vals]
    if cls == 'one-block':
        return [vals]
    out = []
    i = 0
    while i < len(vals):
        c = rng.randint(1, len(vals) - i)
        out.append(vals[i:i + c])
        i += c
    return out


def check(run, replay_case=None):
    n = 260 if run.quick() else 8000
    run.rule = ('forward: files written by the library (every codec and level class, block sizes forcing 0..n blocks) parsed by the reference OCF reader '
                '(magic, metadata map, marker, count/size/payload/marker framing, raw deflate / bzip2 / xz / snappy+CRC / zstd payloads); reverse: files '
                'written by the reference writer with every block partition class x codec x metadata layout (multi-block and negative-count maps, '
                'unknown avro.* keys, user keys with binary values, avro.codec absent vs "null") read by the library; distinct = (direction, codec, '
                'partition class, metadata layout, schema shape); non-trivial = at least one value in the file')
    run.min_evaluations = 100
    run.min_distinct = 40
    run.assumptions = ['reference OCF implementation avmon/ref/ocf.py (zlib raw, bz2, lzma from the Python standard library; own snappy codec)',
                       'zstandard: libzstd one-shot API called directly from the harness (no independent implementation in this image)']
    if replay_case is not None:
        cases = [replay_case]
    else:
        cases = []
        bc = common.boundary_cases()
        for i in range(n):
            rng = random.Random('%s/c04/%d' % (run.seed, i))
            if i % 5 == 0:
                j = bc[(i // 5) % len(bc)][0]
            else:
                j = gschema.SchemaGen(rng, gschema.Opts(max_depth=rng.choice([0, 1, 2, 3]), decorations=rng.random() < 0.2)).gen()
            node, env = names.parse(j)
            vg = gvalue.ValueGen(rng, env, max_depth=4, max_len=3)
            vals = [vg.gen(node) for _ in range(rng.choice([0, 1, 2, 5, 70]))]
            um = []
            for k in range(rng.choice([0, 0, 1, 3])):
                um.append([rng.choice(['owner', 'k%d' % k, 'avro-tools.version', 'avroX', 'é', 'a.b']) + str(k), bytes(rng.getrandbits(8) for _ in range(rng.randint(0, 6))).hex()])
            cases.append({'cid': 'f%d' % i, 'schema': j, 'values': vals, 'codec': CODECS[i % len(CODECS)],
                          'level': rng.choice([None, None, 1]), 'block_size': rng.choice([0, 1, 40, 16000, None]),
                          'partition': ['header-only', 'one-per-block', 'one-block', 'random'][(i // len(CODECS)) % 4],
                          'meta_layout': rng.choice(['single', 'one-per-block', 'negative', 'mixed']), 'user_meta': um,
                          'codec_key': rng.random() < 0.5, 'extra_avro': rng.random() < 0.3, 'sync': '%032x' % rng.getrandbits(128)})
    # ---------------- phase A: library writes; zstd reference compression for the reverse files
    bA = []
    for c in cases:
        cid = c['cid']
        node, env = names.parse(c['schema'])
        c['_ne'] = (node, env)
        rng = random.Random('%s/c04p/%s' % (run.seed, cid))
        c['_blocks'] = partitions(rng, c['values'], c['partition'])
        codec = {'name': c['codec']} if c['level'] is None or c['codec'] in ('null', 'snappy') else {'name': c['codec'], 'level': c['level']}
        steps = [{'o': 'add_meta', 'k': k, 'v': v} for k, v in c['user_meta'] if not k.startswith('avro.')]
        steps += [{'o': 'append_value_ref', 'v': v} for v in c['values']] + [{'o': 'into_inner'}]
        w = {'id': '%s/w' % cid, 'op': 'writer_history', 'sid': cid, 'codec': None if c['codec'] == 'null' else codec, 'steps': steps, 'full_state': False}
        if c['block_size'] is not None:
            w['block_size'] = c['block_size']
        ops = [{'id': '%s/p' % cid, 'op': 'parse_schema', 'sid': cid, 'text': json.dumps(c['schema'])}, w]
        if c['codec'] == 'zstandard':
            for bi, blk in enumerate(c['_blocks']):
                data = b''.join(avrobin.encode(node, env, v) for v in blk)
                ops.append({'id': '%s/z%d' % (cid, bi), 'op': 'ref_zstd_compress', 'bytes': data.hex(), 'level': rng.choice([1, 3, 19])})
        bA.append(ops)
    evA = run.exec_cases(bA)
    # ---------------- phase B: library reads reference files; zstd reference decompression of library payloads
    bB = []
    for c in cases:
        cid = c['cid']
        node, env = c['_ne']
        if 'ok' not in (evA.get('%s/p' % cid) or {}):
            continue
        rng = random.Random('%s/c04w/%s' % (run.seed, cid))
        zq = []
        if c['codec'] == 'zstandard':
            zq = [bytes.fromhex(evA['%s/z%d' % (cid, bi)]['ok']['bytes']) for bi in range(len(c['_blocks'])) if 'ok' in evA.get('%s/z%d' % (cid, bi), {})]
            if len(zq) != len([b for b in c['_blocks'] if b]):
                continue
        zi = iter(zq)
        extra = [('avro.unknown.key', b'\x00\x01'), ('avro.codec.compression_level', b'\x03')] if c['extra_avro'] else []
        if c['extra_avro'] and c['codec'] in ('bzip2',):
            extra = [('avro.unknown.key', b'\x00\x01')]
        text = json.dumps(c['schema'])
        try:
            ref_file = ocf.write(text, node, env, c['_blocks'], codec=c['codec'], sync=bytes.fromhex(c['sync']),
                                 user_meta=[(k, bytes.fromhex(v)) for k, v in c['user_meta']], extra_avro_meta=extra,
                                 meta_layout=c['meta_layout'], codec_key=c['codec_key'], rng=rng, zstd=lambda d: next(zi), meta_order='shuffle')
        except StopIteration:
            continue
        c['_ref_file'] = ref_file
        ops = [{'id': '%s/r' % cid, 'op': 'reader_read', 'bytes': ref_file.hex()}]
        we = evA.get('%s/w' % cid)
        if we is not None and 'ok' in we and c['codec'] == 'zstandard':
            try:
                p = ocf.parse(bytes.fromhex(we['ok']['bytes']))
                for bi, b in enumerate(p['blocks']):
                    ops.append({'id': '%s/d%d' % (cid, bi), 'op': 'ref_zstd_decompress', 'bytes': b['payload'].hex()})
            except ocf.OcfError:
                pass
        bB.append(ops)
    evB = run.exec_cases(bB)
    for c in cases:
        cid = c['cid']
        node, env = c['_ne']
        case = {k: v for k, v in c.items() if not k.startswith('_')}
        sshape = common.schema_shape(node, env)
        # ---------------- forward verdict
        we = evA.get('%s/w' % cid)
        if we is not None:
            if 'ok' not in we:
                run.violation('forward-writer-failed', 'library writer failed on conforming values', case, observed=we)
            elif any('err' in s['r'] for s in we['ok']['steps']):
                bad = [s for s in we['ok']['steps'] if 'err' in s['r']][0]
                run.violation('forward-writer-step-failed kind=%s' % bad['r']['err']['kind'], 'library writer rejected a conforming step', case, observed=bad)
            else:
                data = bytes.fromhex(we['ok']['bytes'])
                run.eval(('fwd', c['codec'], c['block_size'], sshape), len(c['values']) > 0)
                run.hist('forward_files_by_codec', c['codec'])
                try:
                    p = ocf.parse(data)
                    run.count('forward_blocks_parsed', len(p['blocks']))
                    zd = None
                    if p['codec'] == 'zstandard':
                        outs = []
                        for bi in range(len(p['blocks'])):
                            e = evB.get('%s/d%d' % (cid, bi), {})
                            if 'ok' not in e or 'bytes' not in e['ok']:
                                raise ocf.OcfError('zstandard payload rejected by libzstd: %s' % json.dumps(e)[:100])
                            outs.append(bytes.fromhex(e['ok']['bytes']))
                        it = iter(outs)
                        zd = lambda payload: next(it)     # noqa
                    if p['codec'] != c['codec']:
                        raise ocf.OcfError('codec in header is %s, writer was given %s' % (p['codec'], c['codec']))
                    st = p['meta'].get('avro.schema')
                    if st is None:
                        raise ocf.OcfError('no avro.schema in metadata')
                    sj = json.loads(st.decode('utf-8'))
                    ds = [d for d in normalize.diffs(normalize.norm_json(sj), normalize.norm_json(c['schema'])) if not d.startswith('null-namespace-lost')]
                    if ds:
                        run.violation('forward-header-schema-differs %s' % sorted(set(ds))[0], 'avro.schema in the header denotes a different schema (reference reading)', case, observed=sj)
                    got = ocf.read_values(p, node, env, zd)
                    if len(got) != len(c['values']) or not all(avrobin.veq(a, b) for a, b in zip(got, c['values'])):
                        run.violation('forward-values-differ', 'reference reader gets different values from the library-written file', case,
                                      observed={'n': len(got)}, expected={'n': len(c['values'])})
                    um = {k: v.hex() for k, v in p['meta'].items() if not k.startswith('avro.')}
                    exp = {k: v for k, v in c['user_meta'] if not k.startswith('avro.')}
                    if um != exp:
                        run.violation('forward-user-metadata-differs', 'user metadata in the file differs from what was added', case, observed=um, expected=exp)
                    bad_keys = [k for k in p['meta'] if k.startswith('avro.') and k not in ('avro.schema', 'avro.codec', 'avro.codec.compression_level')]
                    if bad_keys:
                        run.violation('forward-unknown-reserved-key', 'writer emitted an unspecified avro.* metadata key', case, observed=bad_keys)
                except ocf.OcfError as e:
                    run.violation('forward-ref-rejects why=%s' % classify(str(e)), 'reference OCF reader rejects the library-written file: %s' % e, case,
                                  observed={'file': data.hex()[:400]})
                except (ValueError, names.SchemaError) as e:
                    run.violation('forward-header-schema-unreadable', 'avro.schema in the header is not a schema the reference accepts: %s' % e, case)
        # ---------------- reverse verdict
        re_ = evB.get('%s/r' % cid)
        if re_ is not None:
            run.eval(('rev', c['codec'], c['partition'], c['meta_layout'], c['codec_key'], sshape), len(c['values']) > 0 and c['partition'] != 'header-only')
            run.hist('reverse_files_by_partition', c['partition'])
            run.hist('reverse_files_by_meta_layout', c['meta_layout'])
            run.sample({'schema': c['schema'], 'codec': c['codec'], 'partition': c['partition'], 'meta_layout': c['meta_layout'],
                        'n_values': len(c['values']), 'reference_file_prefix': c['_ref_file'].hex()[:120]})
            expv = [] if c['partition'] == 'header-only' else c['values']
            if 'ok' not in re_:
                run.violation('reverse-%s' % ('panic site=' + re_['panic']['site'] if 'panic' in re_ else 'failed'), 'library reader failed on a reference-written file', case, observed=re_)
                continue
            r = re_['ok']
            if 'open_err' in r:
                run.violation('reverse-open-failed kind=%s codec=%s meta=%s' % (r['open_err']['kind'], c['codec'], c['meta_layout']),
                              'library cannot open a conforming reference-written file', case, observed=r['open_err'])
                continue
            errs = [it for it in r['items'] if 'err' in it]
            if errs:
                run.violation('reverse-read-error kind=%s codec=%s' % (errs[0]['err']['kind'], c['codec']), 'library reports an error on a conforming reference-written file',
                              case, observed=errs[0])
                continue
            got = [it['value'] for it in r['items']]
            if len(got) != len(expv) or not all(avrobin.veq(a, b) for a, b in zip(got, expv)):
                run.violation('reverse-values-differ codec=%s partition=%s' % (c['codec'], c['partition']), 'library reads different values from the reference-written file',
                              case, observed={'n': len(got)}, expected={'n': len(expv)})
            um = dict((k, v) for k, v in r['user_metadata'])
            exp = {k: v for k, v in c['user_meta']}
            if um != exp:
                run.violation('reverse-user-metadata-differs', 'library returns different user metadata than the reference wrote', case, observed=um, expected=exp)
            ds = [d for d in normalize.diffs(normalize.norm_dump(r['writer_schema']), normalize.norm_json(c['schema'])) if not d.startswith('null-namespace-lost')]
            if ds:
                run.violation('reverse-writer-schema-differs %s' % sorted(set(ds))[0], 'library reports a different writer schema', case, observed=r['writer_schema'])


def classify(msg):
    for key in ('bad magic', 'sync marker mismatch', 'deflate', 'bzip2', 'xz', 'snappy CRC', 'snappy', 'zstandard', 'payload bytes left', 'metadata', 'codec in header',
                'unknown codec', 'no avro.schema', 'eof', 'item', 'negative'):
        if key in msg:
            return key.replace(' ', '-')
    return 'other'


def replay(run, rc):
    check(run, replay_case=rc['case'])
