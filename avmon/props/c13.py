"""C13 writers never lose data silently on short writes or sink errors (fault enumeration)."""
import json
import os
import random

from . import common
from ..gen import value as gvalue
from ..gen.plan import plan_of
from ..ref import ocf, avrobin
from ..ref import names

LEVEL = 'fault_enumeration'

# (schema, tag): picks that make every encoder arm issue a sink call
PICKS = [
    'boolean', 'int', 'long', 'float', 'double', 'bytes', 'string',
    {'type': 'fixed', 'name': 'F', 'size': 5}, {'type': 'enum', 'name': 'E', 'symbols': ['A', 'B']},
    {'type': 'array', 'items': 'string'}, {'type': 'map', 'values': 'long'}, ['null', 'string', 'long'],
    {'type': 'bytes', 'logicalType': 'decimal', 'precision': 20, 'scale': 2},
    {'type': 'fixed', 'name': 'D', 'size': 9, 'logicalType': 'decimal', 'precision': 20, 'scale': 2},
    {'type': 'bytes', 'logicalType': 'big-decimal'}, {'type': 'string', 'logicalType': 'uuid'}, {'type': 'fixed', 'name': 'U', 'size': 16, 'logicalType': 'uuid'},
    {'type': 'bytes', 'logicalType': 'uuid'}, {'type': 'fixed', 'name': 'Du', 'size': 12, 'logicalType': 'duration'},
    {'type': 'long', 'logicalType': 'timestamp-micros'}, {'type': 'int', 'logicalType': 'date'},
    {'type': 'record', 'name': 'R', 'fields': [{'name': 'a', 'type': 'long'}, {'name': 'b', 'type': 'string'}, {'name': 'c', 'type': ['null', 'double']},
                                                 {'name': 'd', 'type': {'type': 'array', 'items': {'type': 'map', 'values': 'bytes'}}},
                                                 {'name': 'e', 'type': {'type': 'enum', 'name': 'En', 'symbols': ['X', 'Y']}}]},
    {'type': 'record', 'name': 'L', 'fields': [{'name': 'v', 'type': 'string'}, {'name': 'next', 'type': ['null', 'L']}]},
]


def admissible(steps, failed, base_vals, got):
    """values of operations that returned Ok are all there, in order; of an operation that returned Err any prefix of its values may be there
    (an append that fails leaves no trace, a bulk append may have taken some of its values before failing)"""
    segs, pos = [], 0
    for i, st in enumerate(steps):
        n = {'append_value': 1, 'append_value_ref': 1, 'append': 1, 'unvalidated_append_value': 1, 'unvalidated_append_value_ref': 1, 'append_ser': 1}.get(st['o'])
        if n is None:
            n = len(st.get('vs', st.get('plans', []))) if st['o'].startswith('extend') else 0
        segs.append((base_vals[pos:pos + n], i in failed))
        pos += n
    if pos != len(base_vals):
        return True          # the steps do not account for the baseline: not judged
    reach = {0}
    for vals, is_failed in segs:
        nxt = set()
        for g in reach:
            for take in (range(len(vals) + 1) if is_failed else [len(vals)]):
                if g + take <= len(got) and all(avrobin.veq(got[g + t], vals[t]) for t in range(take)):
                    nxt.add(g + take)
        reach = nxt
        if not reach:
            return False
    return len(got) in reach


def check(run, replay_case=None):
    run.rule = ('write scenarios {datum writer value path; serde path (GenericDatumWriter::write_ser and the documented-count function write_avro_datum_ref, '
                'direct and buffered blocks); container writer with header, several blocks, markers, flush, into_inner, drop, codecs null/deflate; generic '
                'single-object writer with several messages} x schema picks covering every encoder arm x fault plans {accept k in 1,2,3,7,64; pseudo-random '
                'lengths; an injected error at EVERY individual write and flush call index, kinds Other/WriteZero/Interrupted, transient and sticky}; '
                'distinct = (scenario kind, schema, plan class); non-trivial = the plan alters at least one sink call')
    run.min_evaluations = 500
    run.min_distinct = 30
    run.exhaustive = True
    run.assumptions = ['baseline = the same scenario into a fault-free sink', 'the sink obeys the std::io::Write contract (short accepts, errors; Interrupted is transient)']
    thorough = not run.quick()
    if replay_case is not None:
        scen = [replay_case]
    else:
        scen = []
        picks = PICKS if thorough else PICKS
        for i, j in enumerate(picks):
            rng = random.Random('%s/c13/%d' % (run.seed, i))
            node, env = names.parse(j)
            vg = gvalue.ValueGen(rng, env, boundary_bias=0.3, max_depth=4, max_len=3, max_map=1)
            vals = [vg.gen(node) for _ in range(4)]
            if isinstance(j, dict) and j.get('name') == 'L':
                vals = [{'r': [['v', {'s': 'a'}], ['next', {'u': [1, {'r': [['v', {'s': 'bb'}], ['next', {'u': [0, None]}]]}]}]]}] * 2
            sid = 's%d' % i
            scen.append({'cid': 'd%d' % i, 'schema': j, 'kind': 'datum-value', 'scenario': {'op': 'datum_write', 'sid': sid, 'value': vals[0]}})
            pl = plan_of(node, env, vals[1])
            scen.append({'cid': 'e%d' % i, 'schema': j, 'kind': 'datum-serde', 'scenario': {'op': 'datum_write_ser', 'sid': sid, 'plan': pl, 'legacy_fn': True}})
            if pl[0] == 'struct' and len(pl[2]) > 1:
                # a serde struct whose field order differs from the schema: fields are held back and emitted later
                rev = ['struct', pl[1], list(reversed(pl[2]))]
                scen.append({'cid': 'x%d' % i, 'schema': j, 'kind': 'datum-serde-out-of-order-fields', 'scenario': {'op': 'datum_write_ser', 'sid': sid, 'plan': rev, 'legacy_fn': i % 2 == 0}})
                # the same record serialized as a serde map with a known length (what HashMap/BTreeMap do): accepted against a record schema
                asmap = ['map', [[['str', f], p] for f, p in pl[2]]]
                scen.append({'cid': 'm%d' % i, 'schema': j, 'kind': 'datum-serde-record-as-map', 'scenario': {'op': 'datum_write_ser', 'sid': sid, 'plan': asmap, 'legacy_fn': i % 2 == 1}})
                rot = ['struct', pl[1], pl[2][1:] + pl[2][:1]]
                scen.append({'cid': 'y%d' % i, 'schema': j, 'kind': 'datum-serde-out-of-order-fields', 'scenario': {'op': 'datum_write_ser', 'sid': sid, 'plan': rot, 'target_block_size': 8}})
            if i % 3 == 0:
                scen.append({'cid': 'g%d' % i, 'schema': j, 'kind': 'datum-serde-buffered-blocks', 'scenario': {'op': 'datum_write_ser', 'sid': sid, 'plan': pl, 'target_block_size': 4}})
            steps = [{'o': 'append_value_ref', 'v': vals[0]}, {'o': 'append_ser', 'plan': plan_of(node, env, vals[1])}, {'o': 'flush'},
                     {'o': 'extend_from_slice', 'vs': vals[2:4]}, {'o': 'append_value', 'v': vals[0]}, {'o': ['into_inner', 'drop'][i % 2]}]
            if i % 2 == 0:
                scen.append({'cid': 'w%d' % i, 'schema': j, 'kind': 'container', 'scenario': {'op': 'writer_history', 'sid': sid, 'codec': [None, {'name': 'deflate'}][(i // 2) % 2],
                             'marker': '000102030405060708090a0b0c0d0e0f', 'block_size': [1, 16000, 0][i % 3], 'steps': steps, 'full_state': False}})
            if i % 2 == 1:
                scen.append({'cid': 'o%d' % i, 'schema': j, 'kind': 'single-object', 'scenario': {'op': 'so_history', 'sid': sid,
                             'steps': [{'o': 'write_value_ref', 'v': vals[0]}, {'o': 'write_value', 'v': vals[1]}, {'o': 'write_value_ref', 'v': vals[2]}]}})
    batches = []
    for c in scen:
        sid = c['scenario']['sid']
        batches.append([{'id': '%s/p' % c['cid'], 'op': 'parse_schema', 'sid': sid, 'text': json.dumps(c['schema'])},
                        {'id': '%s/s' % c['cid'], 'op': 'sink_scan', 'scenario': c['scenario'], 'thorough': thorough}])
    ev = run.exec_cases(batches, cpu_limit_s=3000)
    if (not run.quick() or os.environ.get('VERIF_SANITIZERS') == '1') and replay_case is None:
        # the fault scan of container scenarios ends in Writer::into_inner / Drop after injected faults (the crate's unsafe blocks)
        from .. import sanitizers
        sanitizers.miri_stage(run, [b for b in batches if b[1]['scenario']['op'] in ('writer_history', 'so_history')], ev, max_cases=int(os.environ.get('VERIF_MIRI_CASES', '16')),
                              shards=12, what='sink_scan_ops', max_bytes=4000)
    total = 0
    for c in scen:
        e = ev.get('%s/s' % c['cid'])
        if e is None:
            continue
        case = c
        if 'ok' not in e:
            run.violation('scan-%s' % ('panic site=' + e['panic']['site'] if 'panic' in e else 'failed'), 'sink scan failed', case, observed=e)
            continue
        r = e['ok']
        if r.get('baseline_not_ok'):
            run.inconc('baseline scenario does not succeed on a fault-free sink (%s): %s' % (c['cid'], r.get('detail', '')[:200]))
            continue
        total += r['plans']
        run.evaluations += r['plans']
        for pn, k in r['by_plan'].items():
            run.hist('plans_by_class', pn, k)
            run.distinct.add(repr((c['kind'], json.dumps(c['schema'])[:80], pn)).encode())
        run.hist('scenarios', c['kind'])
        run.count('plans_where_an_error_surfaced', r['errors_surfaced'])
        run.count('plans_all_ok_and_bytes_identical', r['all_ok_and_identical'])
        run.sample({'scenario': c['kind'], 'schema': c['schema'], 'baseline_sink_calls[write,flush]': r['baseline_sink_calls'], 'baseline_bytes': r['baseline_bytes'], 'plans': r['plans']})
        # transient faults of container histories: when the failing sink call sits exactly at a structural boundary of the file (before
        # the header, before a block) nothing of the failed piece reached the sink, the writer returned Err, and the history went on with
        # every later operation Ok -- then no value may be missing at the end (the block partitioning may differ): an Ok after the error
        # must not hide a loss
        if r.get('continuations') and r.get('baseline'):
            bounds, base_vals = {}, None
            try:
                node, env = names.parse(c['schema'])
                pf = ocf.parse(bytes.fromhex(r['baseline']))
                base_vals = ocf.read_values(pf, node, env)
                bounds = {0: 'file-start', pf['header_end']: 'first-block-start'}
                for b in pf['blocks']:
                    bounds.setdefault(b['payload_end'] + 16, 'block-start')
            except (ocf.OcfError, names.SchemaError, ValueError, KeyError):       # zstandard has no reference codec here; C04 judges baselines
                run.count('baselines_the_reference_could_not_read')
            for k in r['continuations']:
                run.count('transient_fault_continuations')
                at = bounds.get(k['sink_len_at_failure'])
                if at is None:
                    continue
                run.count('transient_faults_at_a_structural_boundary')
                if k['final_equals_a_baseline']:
                    continue
                codec = (c['scenario'].get('codec') or {}).get('name', 'null')
                try:
                    got = ocf.read_values(ocf.parse(bytes.fromhex(k['final'])), node, env)
                    why = None if admissible(c['scenario']['steps'], set(k['failed_step_indices']), base_vals, got) else 'values-missing-or-different'
                except (ocf.OcfError, ValueError, KeyError, avrobin.DecodeError) as ex:
                    why = 'file-unreadable'
                if why:
                    run.violation('ok-after-clean-transient-fault-but-%s at=%s codec=%s' % (why, at, codec),
                                  'a sink call failed once exactly at %s (nothing of the piece was delivered), the operation returned Err, every later operation returned Ok, '
                                  'yet the file does not hold the appended values (%s; %d bytes, fault-free %d)' % (at, why, k['final_len'], len(r['baseline']) // 2),
                                  dict(case, plan=k['plan']), observed=k)
                else:
                    run.count('continuations_with_different_block_partition_but_all_values')
        for v in r['violations']:
            run.violation('%s scenario=%s' % (v['sig'], c['kind']), '%s (%d plans); first: %s' % (v['sig'], v['count'], json.dumps(v['first'])[:300]), case, observed=v)
    run.cov['fault_plans_enumerated'] = total


def replay(run, rc):
    check(run, replay_case=rc['case'])
