"""C06 a successfully decoded value always conforms to the schema."""
from . import fuzzcommon as F

LEVEL = 'exploration'


def check(run, replay_case=None):
    run.rule = ('same hostile input stream as C05 at the default limit (exhaustive short strings, every strict prefix of valid encodings, bit flips, varint splices, splices, random) '
                'through read_value and read_deser; oracle on every Ok: value validates, re-encodes, re-decodes to the same value; every strict prefix of a valid encoding must be '
                'rejected by both decoders (encodings are self-delimiting); both decoders consume the same length when both succeed; distinct = (schema, engine)')
    run.min_evaluations = 50000
    run.min_distinct = 40
    run.assumptions = ['conformance is the library\'s own Value::validate (the property defines it so)', 'prefix rule: Avro encodings are self-delimiting per schema']
    found = F.run_engines(run, [F.DEFAULT_L], 'c06')
    for sig, count, first, ctx in found:
        if not sig.startswith(F.C05_PREFIXES):
            run.violation(sig, '%s (%d occurrences); first witness: %s' % (sig, count, str(first)[:300]), ctx, observed=first)
        else:
            run.count('c05_class_observations_(judged_by_C05)', count)
    run.sample({'note': 'inputs are enumerated in-process; witnesses of violations are written to the replay files'})


def replay(run, rc):
    check(run, replay_case=rc['case'])
