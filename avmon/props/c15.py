"""C15 every codec round-trips every payload and interoperates with reference codecs."""
import os
import random
import zlib

from ..ref import ocf, snappy

LEVEL = 'exploration'

LEVELS = {'null': [None], 'deflate': [None, 0, 1, 6, 9, 10, -1], 'snappy': [None], 'bzip2': [None] + list(range(1, 10)), 'xz': [None] + list(range(0, 10)),
          'zstandard': [None] + [0, 1, 2, 3, 5, 9, 15, 19, 22]}
OUT_OF_RANGE = {'bzip2': [0, 10, 200], 'xz': [10, 99], 'zstandard': [23, 100, 255]}


def payloads(rng, thorough):
    sizes = [0, 1, 2, 100, 4096, 65535, 65536, 65537] + ([131072, 131073, 300000, 1 << 20, (1 << 22) + 3] if thorough else [131073])
    out = []
    for n in sizes:
        kinds = ['zero', 'text', 'random'] if n <= 131073 or thorough else ['random']
        for kind in kinds:
            if kind == 'zero':
                d = bytes(n)
            elif kind == 'text':
                d = (b'the quick brown fox jumps over the lazy dog. ' * (n // 40 + 1))[:n]
            else:
                d = rng.randbytes(n)
            out.append((kind, d))
    return out


def check(run, replay_case=None):
    thorough = not run.quick()
    run.rule = ('payloads {empty, 1 byte, all-zero, text-like, random} x sizes around codec windows/blocks (64 KiB snappy fragments, 128 KiB zstd block, deflate window; up to 4 MiB in the '
                'thorough tier) x codec x every level of each codec\'s documented range; out-of-range levels as a separately signed class; distinct = (codec, level, payload kind, size class); '
                'non-trivial = payload non-empty')
    run.min_evaluations = 200
    run.min_distinct = 60
    run.assumptions = ['reference codecs: Python zlib (raw, wbits=-15), bz2, lzma (xz container), own snappy + zlib.crc32', 'zstandard: libzstd one-shot API called directly']
    rng = random.Random('%s/c15' % run.seed)
    cases = []
    pls = payloads(rng, thorough)
    n = 0
    for codec, levels in LEVELS.items():
        for lv in levels:
            for kind, d in pls:
                if not thorough and len(d) > 70000 and lv not in (None, 1) and codec not in ('zstandard',):
                    continue
                if not thorough and lv is not None and lv not in (0, 1, 9, 19, 22, 10, -1) and len(d) > 4096:
                    continue
                cases.append({'cid': 'k%d' % n, 'codec': codec, 'level': lv, 'kind': kind, 'data': d, 'class': 'in-range'})
                n += 1
    for codec, levels in OUT_OF_RANGE.items():
        for lv in levels:
            cases.append({'cid': 'k%d' % n, 'codec': codec, 'level': lv, 'kind': 'text', 'data': b'hello hello hello hello', 'class': 'out-of-range'})
            n += 1
    b1 = []
    for c in cases:
        cid = c['cid']
        cj = {'name': c['codec']} if c['level'] is None else {'name': c['codec'], 'level': c['level']}
        c['_cj'] = cj
        d = c['data']
        ops = [{'id': '%s/c' % cid, 'op': 'codec_compress', 'codec': cj, 'bytes': d.hex()}]
        # reference-compressed stream into the library
        if c['class'] == 'in-range' and c['level'] in (None, 1):
            if c['codec'] == 'zstandard':
                ops.append({'id': '%s/zc' % cid, 'op': 'ref_zstd_compress', 'bytes': d.hex(), 'level': 3})
            elif c['codec'] != 'null':
                ops.append({'id': '%s/rd' % cid, 'op': 'codec_decompress', 'codec': cj, 'bytes': ocf.compress(c['codec'], d, rng).hex()})
        b1.append(ops)
    ev = run.exec_cases(b1, cpu_limit_s=3000)
    if (thorough or os.environ.get('VERIF_SANITIZERS') == '1') and replay_case is None:
        # compress + decompress of small payloads under memory-safety monitors: Miri for the Rust codecs, memcheck for all (xz/zstandard are C)
        from .. import sanitizers
        per = {}
        for b, c in zip(b1, cases):
            if c['codec'] in ('deflate', 'snappy', 'bzip2') and len(c['data']) <= 600:
                per.setdefault((c['codec'], len(b) > 1), []).append(b)
        rust, want = [], int(os.environ.get('VERIF_MIRI_CASES', '60'))
        while len(rust) < want and any(per.values()):
            for k in sorted(per):
                if per[k] and len(rust) < want:
                    rust.append(per[k].pop(0))
        sanitizers.miri_stage(run, rust, ev, max_cases=len(rust), shards=12, what='codec_ops', max_bytes=10 ** 9)
        sanitizers.memcheck_stage(run, [b for b, c in zip(b1, cases) if len(c['data']) <= 70000], ev, max_cases=400, shards=16)
    b2 = []
    for c in cases:
        cid = c['cid']
        ce = ev.get('%s/c' % cid)
        case = {'codec': c['codec'], 'level': c['level'], 'payload_kind': c['kind'], 'payload_len': len(c['data']), 'payload_prefix': c['data'][:64].hex(), 'class': c['class']}
        c['_case'] = case
        if ce is None:
            continue
        sizeclass = 0 if not c['data'] else len(c['data']).bit_length()
        run.eval((c['codec'], c['level'], c['kind'], sizeclass), len(c['data']) > 0)
        run.hist('compressions_by_codec', c['codec'])
        if 'ok' not in ce:
            if c['class'] == 'out-of-range':
                run.violation('%s settings=out-of-range codec=%s' % ('compress-panic' if 'panic' in ce else 'compress-error', c['codec']),
                              'a level the settings constructor accepts makes compress %s' % ('panic' if 'panic' in ce else 'fail'), case, observed=ce)
            else:
                run.violation('compress-%s codec=%s' % ('panic site=' + ce['panic']['site'] if 'panic' in ce else 'error', c['codec']), 'compress failed', case, observed=ce)
            continue
        comp = bytes.fromhex(ce['ok']['bytes'])
        c['_comp'] = comp
        ops = [{'id': '%s/d' % cid, 'op': 'codec_decompress', 'codec': c['_cj'], 'bytes': comp.hex()}]
        if c['codec'] == 'zstandard':
            ops.append({'id': '%s/zd' % cid, 'op': 'ref_zstd_decompress', 'bytes': comp.hex(), 'cap': len(c['data']) + 1024})
            z = ev.get('%s/zc' % cid)
            if z is not None and 'ok' in z:
                ops.append({'id': '%s/rd' % cid, 'op': 'codec_decompress', 'codec': c['_cj'], 'bytes': z['ok']['bytes']})
        if c['codec'] == 'snappy' and len(c['data']) <= 4096:
            for k in range(4):
                m = bytearray(comp)
                m[len(m) - 4 + k] ^= 0x01
                ops.append({'id': '%s/x%d' % (cid, k), 'op': 'codec_decompress', 'codec': c['_cj'], 'bytes': bytes(m).hex()})
        b2.append(ops)
    ev2 = run.exec_cases(b2, cpu_limit_s=3000)
    ev.update(ev2)
    for c in cases:
        if '_comp' not in c:
            continue
        cid = c['cid']
        case = c['_case']
        comp = c['_comp']
        d = c['data']
        if len(run.samples) < 5:
            run.sample(dict(case, compressed_len=len(comp)))
        # 1. own round trip
        de = ev.get('%s/d' % cid)
        if de is not None:
            if 'ok' not in de:
                run.violation('roundtrip-decompress-%s codec=%s' % ('panic' if 'panic' in de else 'error', c['codec']), 'decompress(compress(p)) fails', case, observed=de)
            elif bytes.fromhex(de['ok']['bytes']) != d:
                run.violation('roundtrip-differs codec=%s' % c['codec'], 'decompress(compress(p)) != p (got %d bytes for %d)' % (len(de['ok']['bytes']) // 2, len(d)), case)
        # 2. reference decompressor on library output
        try:
            if c['codec'] == 'zstandard':
                ze = ev.get('%s/zd' % cid)
                if ze is not None:
                    if 'ok' not in ze or 'bytes' not in ze['ok']:
                        raise ocf.OcfError('libzstd rejects the stream: %s' % str(ze)[:100])
                    out = bytes.fromhex(ze['ok']['bytes'])
                else:
                    out = d
            else:
                out = ocf.decompress(c['codec'], comp)
            run.count('reference_decompressions')
            if out != d:
                run.violation('reference-reads-different-data codec=%s' % c['codec'], 'a reference decompressor returns different data for the library\'s output (%d vs %d bytes)' % (len(out), len(d)), case)
        except ocf.OcfError as e:
            run.violation('reference-rejects-library-output codec=%s why=%s' % (c['codec'], classify(str(e))), 'reference decompressor rejects library output: %s' % e, case,
                          observed=comp[:64].hex())
        # 3. library on reference output
        re_ = ev.get('%s/rd' % cid)
        if re_ is not None:
            run.count('library_decompressions_of_reference_streams')
            if 'ok' not in re_:
                run.violation('library-rejects-reference-stream codec=%s' % c['codec'], 'the library rejects a standard stream produced by a reference compressor', case, observed=re_)
            elif bytes.fromhex(re_['ok']['bytes']) != d:
                run.violation('library-reads-reference-stream-differently codec=%s' % c['codec'], 'the library decompresses a reference stream to different data', case)
        # 4. snappy trailer
        if c['codec'] == 'snappy':
            if comp[-4:] != zlib.crc32(d).to_bytes(4, 'big'):
                run.violation('snappy-trailer-is-not-big-endian-crc32-of-uncompressed-data', 'snappy block does not end with the big-endian CRC-32 of the uncompressed data', case, observed=comp[-4:].hex())
            for k in range(4):
                xe = ev.get('%s/x%d' % (cid, k))
                if xe is not None:
                    run.count('snappy_checksum_corruptions')
                    if 'ok' in xe:
                        run.violation('snappy-wrong-checksum-accepted', 'a snappy block with an altered checksum byte is accepted', dict(case, byte=k))


def classify(msg):
    for key in ('deflate', 'bzip2', 'xz', 'snappy CRC', 'snappy', 'libzstd', 'trailing'):
        if key in msg:
            return key.replace(' ', '-')
    return 'other'


def replay(run, rc):
    check(run)
