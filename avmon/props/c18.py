"""C18 single-object messages carry the spec header and reject foreign messages."""
import json
import os
import random

from . import common
from .c12 import attr_sigs
from ..gen import schema as gschema
from ..gen import value as gvalue
from ..gen import history as H
from ..ref import names, avrobin, pcf, crc64

LEVEL = 'exploration'


def sized_value(rng, vg, node, env, target):
    """a value whose encoding is close to `target` bytes when the schema allows (string/bytes at top or in a record)"""
    return vg.gen(node)


def check(run, replay_case=None):
    n = 260 if run.quick() else 8000
    run.rule = ('sequences of 5-40 writes through ONE GenericSingleObjectWriter (datum lengths around the internal 10..=20 header-length window: 0,1,9,10,11,20,21, 4 KiB), '
                'interleaved with values failing validation, values failing in the encoder after validation, and sinks failing / accepting short writes at '
                'a given call; every message checked against header = C3 01 + LE CRC-64-AVRO(reference PCF) and body = reference encoding, decoded alone by '
                'the generic reader; header attacks: all 80 single-bit flips and all truncations 0..=10; distinct = (schema shape, step-kind sequence); '
                'non-trivial = at least two successful messages of different lengths')
    run.min_evaluations = 100
    run.min_distinct = 40
    run.assumptions = ['reference PCF/CRC-64-AVRO/codec (avmon/ref)', 'buffer invariant observed through GenericSingleObjectWriter::verif_buffer (hook)']
    if replay_case is not None:
        cases = [replay_case]
    else:
        cases = []
        bc = common.boundary_cases()
        LENS = [0, 1, 9, 10, 11, 20, 21, 4096]
        for i in range(n):
            rng = random.Random('%s/c18/%d' % (run.seed, i))
            if i % 6 == 0:
                j = ['bytes', 'string', {'type': 'record', 'name': 'M', 'fields': [{'name': 'p', 'type': 'bytes'}, {'name': 'q', 'type': ['null', 'long']}]}][(i // 6) % 3]
            elif i % 6 == 1:
                j = bc[(i // 6) % len(bc)][0]
            else:
                j = gschema.SchemaGen(rng, gschema.Opts(max_depth=rng.choice([0, 1, 2, 3]))).gen()
            node, env = names.parse(j)
            vg = gvalue.ValueGen(rng, env, max_depth=4, max_len=3, max_map=1)
            steps = []
            wrong = H.wrong_value_for(node, env)
            for k in range(rng.randint(5, 14 if run.quick() else 40)):
                c = rng.random()
                if i % 6 == 0 and c < 0.6:
                    ln = rng.choice(LENS)
                    if j == 'bytes':
                        v = {'B': bytes(rng.getrandbits(8) for _ in range(max(0, ln - 2))).hex()}
                    elif j == 'string':
                        v = {'s': 'x' * max(0, ln - 2)}
                    else:
                        v = {'r': [['p', {'B': bytes(rng.getrandbits(8) for _ in range(max(0, ln - 3))).hex()}], ['q', {'u': [0, None]}]]}
                    steps.append({'o': rng.choice(['write_value_ref', 'write_value']), 'v': v, 'expect': 'ok'})
                elif c < 0.65:
                    steps.append({'o': rng.choice(['write_value_ref', 'write_value']), 'v': vg.gen(node), 'expect': 'ok'})
                elif c < 0.78 and wrong is not None:
                    steps.append({'o': 'write_value_ref', 'v': wrong, 'expect': 'err', 'why': 'validation'})
                elif c < 0.90:
                    plan = rng.choice([{'fail_write': [0, 'Other']}, {'fail_write': [0, 'WriteZero']}, {'k': 1, 'fail_write': [rng.randint(0, 12), 'Other']},
                                       {'k': 3, 'fail_write': [rng.randint(1, 5), 'BrokenPipe']}])
                    steps.append({'o': 'write_value_ref', 'v': vg.gen(node), 'expect': 'sink-fault', 'sink_plan': plan})
                else:
                    steps.append({'o': 'write_value_ref', 'v': vg.gen(node), 'expect': 'ok', 'sink_plan': {'k': rng.choice([1, 2, 7])}})
            cases.append({'cid': 'm%d' % i, 'schema': j, 'steps': steps, 'cap': rng.choice([0, 10, 64, 1024])})
    b1 = []
    for c in cases:
        cid = c['cid']
        b1.append([{'id': '%s/p' % cid, 'op': 'parse_schema', 'sid': cid, 'text': json.dumps(c['schema'])},
                   {'id': '%s/i' % cid, 'op': 'schema_info', 'sid': cid, 'want': ['pcf']},
                   {'id': '%s/h' % cid, 'op': 'so_history', 'sid': cid, 'cap': c['cap'],
                    'steps': [{k: v for k, v in s.items() if k not in ('expect', 'why')} for s in c['steps']]}])
    ev = run.exec_cases(b1)
    if (not run.quick() or os.environ.get('VERIF_SANITIZERS') == '1') and replay_case is None:
        # the single-object writer owns a self-referencing ResolvedOwnedSchema (generated unsafe code)
        from .. import sanitizers
        sanitizers.miri_stage(run, b1, ev, max_cases=int(os.environ.get('VERIF_MIRI_CASES', '36')), shards=12, what='single_object_ops',
                              prefer=lambda c: ('sink_plan' in json.dumps(c)) + 0.0)
    b2 = []
    for c in cases:
        cid = c['cid']
        he = ev.get('%s/h' % cid)
        node, env = names.parse(c['schema'])
        c['_ne'] = (node, env)
        if he is None or 'ok' not in (ev.get('%s/p' % cid) or {}):
            continue
        case = {k: v for k, v in c.items() if not k.startswith('_')}
        if 'ok' not in he:
            run.violation('writer-%s' % ('panic site=' + he['panic']['site'] if 'panic' in he else 'setup-failed'), 'single-object writer failed', case, observed=he)
            continue
        ref_pcf = pcf.pcf(c['schema'])
        lib_pcf = (ev.get('%s/i' % cid) or {}).get('ok', {}).get('pcf', {}).get('ok')
        exp_header = b'\xc3\x01' + crc64.fingerprint_le(ref_pcf.encode('utf-8'))
        c['_header'] = exp_header
        hdr = bytes.fromhex(he['ok']['header']) if he['ok']['header'] else None
        good_msgs = []
        lens = set()
        ops = [{'id': '%s/p' % cid, 'op': 'parse_schema', 'sid': cid, 'text': json.dumps(c['schema'])}]
        for i, (st, e) in enumerate(zip(c['steps'], he['ok']['steps'])):
            ok = 'ok' in e['r']
            run.hist('steps', '%s:%s' % (st['expect'], 'ok' if ok else 'err'))
            msg = bytes.fromhex(e['bytes'])
            if st['expect'] == 'ok' and not ok:
                run.violation('conforming-write-rejected kind=%s' % e['r']['err']['kind'], 'a conforming value was rejected', dict(case, step=i), observed=e)
                continue
            if st['expect'] == 'err':
                if ok:
                    run.violation('invalid-value-written', 'a value that fails validation was written', dict(case, step=i), observed=e)
                elif msg:
                    run.violation('rejected-value-leaked-bytes', 'a rejected value left %d bytes in the output' % len(msg), dict(case, step=i), observed=e)
            # the state anchor: buffer == header between calls, whatever happened
            if hdr is not None and e['buf'] != he['ok']['header']:
                run.violation('buffer-not-reset-after %s' % ('ok' if ok else ('sink-fault' if st['expect'] == 'sink-fault' else 'failed-value')),
                              'after the call the writer\'s internal buffer is not just the header (%d bytes instead of %d)' % (len(e['buf']) // 2, len(hdr)),
                              dict(case, step=i), observed={'buf': e['buf'][:120]})
            if not ok:
                continue
            if 'sink_plan' in st and 'fail_write' in st['sink_plan']:
                # the fault index may lie beyond the calls this message needed: then the write is complete
                pass
            body = avrobin.encode(node, env, st['v'])
            exp = exp_header + body
            lens.add(len(msg))
            if msg[:2] != b'\xc3\x01':
                run.violation('marker-bytes-wrong', 'message does not start with C3 01', dict(case, step=i), observed=msg[:12].hex())
            elif msg[:10] != exp_header:
                lib_expected = b'\xc3\x01' + crc64.fingerprint_le((lib_pcf or '').encode('utf-8'))
                if msg[:10] != lib_expected:
                    run.violation('header-is-not-the-fingerprint-of-the-canonical-form', 'header bytes 2..10 are not CRC-64-AVRO (LE) of the schema\'s canonical form',
                                  dict(case, step=i), observed=msg[:10].hex(), expected=exp_header.hex())
                else:
                    for sg in attr_sigs(lib_pcf, ref_pcf):
                        run.violation('header-fingerprint-differs-from-spec cause=pcf:%s' % sg, 'the header fingerprint is computed over a canonical form that deviates from the specification (see C12)',
                                      dict(case, step=i), observed=msg[:10].hex(), expected=exp_header.hex())
            if msg[10:] != body:
                run.violation('body-differs after=%s' % prev_kind(c['steps'], i), 'message body is not the encoding of the value written (corrupted by earlier calls on the same writer?)',
                              dict(case, step=i), observed=msg.hex()[:300], expected=exp.hex()[:300])
            if e['r']['ok'] != len(msg):
                run.violation('returned-count-differs', 'write returned %d, message has %d bytes' % (e['r']['ok'], len(msg)), dict(case, step=i))
            good_msgs.append((i, msg))
            ops.append({'id': '%s/r%d' % (cid, i), 'op': 'so_read', 'sid': cid, 'bytes': msg.hex() + 'ee'})
        # header attacks on the first good message
        if good_msgs:
            i0, m0 = good_msgs[0]
            c['_attack'] = m0
            for bit in range(80):
                mm = bytearray(m0)
                mm[bit // 8] ^= 1 << (bit % 8)
                ops.append({'id': '%s/f%d' % (cid, bit), 'op': 'so_read', 'sid': cid, 'bytes': bytes(mm).hex()})
            for t in range(0, 10):
                ops.append({'id': '%s/t%d' % (cid, t), 'op': 'so_read', 'sid': cid, 'bytes': m0[:t].hex()})
        c['_good'] = good_msgs
        shape = (common.schema_shape(node, env), tuple(s['expect'] for s in c['steps']))
        run.eval(shape, len(lens) >= 2)
        run.sample({'schema': c['schema'], 'steps': [s['expect'] for s in c['steps']], 'message_lengths': sorted(lens)})
        b2.append(ops)
    ev2 = run.exec_cases(b2)
    for c in cases:
        if '_good' not in c:
            continue
        cid = c['cid']
        node, env = c['_ne']
        case = {k: v for k, v in c.items() if not k.startswith('_')}
        for i, msg in c['_good']:
            e = ev2.get('%s/r%d' % (cid, i))
            if e is None:
                continue
            run.count('messages_decoded_alone')
            if 'ok' not in e or 'value' not in e['ok']:
                if 'ok' in e and msg[:10] != c['_header']:
                    continue        # header deviates (reported above)
                run.violation('message-not-decodable', 'a successfully written message is not decodable on its own', dict(case, step=i), observed=e)
            elif not avrobin.veq(e['ok']['value'], c['steps'][i]['v']) or e['ok']['pos'] != len(msg):
                run.violation('message-decodes-differently', 'message decodes to a different value or consumes a different length', dict(case, step=i), observed=e['ok'], expected=c['steps'][i]['v'])
        if '_attack' in c:
            for bit in range(80):
                e = ev2.get('%s/f%d' % (cid, bit))
                if e is None:
                    continue
                run.count('header_bit_flips')
                if 'ok' in e and 'value' in e['ok']:
                    run.violation('altered-header-accepted bit=%s' % ('marker' if bit < 16 else 'fingerprint'), 'a message whose header differs in one bit was decoded', dict(case, bit=bit), observed=e['ok'])
                elif 'ok' in e and e['ok']['pos'] > 10:
                    run.violation('datum-bytes-consumed-after-header-mismatch', 'reader consumed %d bytes although the header did not match' % e['ok']['pos'], dict(case, bit=bit))
                elif 'panic' in e:
                    run.violation('reader-panic site=%s' % e['panic']['site'], 'single-object reader panicked', dict(case, bit=bit), observed=e)
            for t in range(10):
                e = ev2.get('%s/t%d' % (cid, t))
                if e is None:
                    continue
                run.count('header_truncations')
                if 'ok' in e and 'value' in e['ok']:
                    run.violation('truncated-header-accepted', 'a message shorter than the header was decoded', dict(case, truncated_to=t), observed=e['ok'])
                elif 'panic' in e:
                    run.violation('reader-panic site=%s' % e['panic']['site'], 'single-object reader panicked', dict(case, truncated_to=t), observed=e)
    if replay_case is None:
        typed_stage(run)


def typed_stage(run):
    """the typed API (SpecificSingleObjectWriter<T> built in every documented way, typed and generic readers) over the C16 corpus types"""
    from .. import driver
    from . import corpus_common as CC
    driver.build('avmon-corpus')
    types = CC.run_corpus(run, 'c18', 8 if run.quick() else 12)
    for t in types:
        run.evaluations += t['checks']
        run.count('typed_single_object_messages', t['checks'])
        run.distinct.add(('typed:%s' % t['name']).encode())
        for v in t['violations']:
            run.violation('typed T=%s %s' % (t['name'], v['sig']), '%s: %s (%d occurrences); first: %s' % (t['name'], v['sig'], v['count'], json.dumps(v['first'])[:300]),
                          {'type': t['name'], 'schema': t.get('schema_json'), 'witness': v['first']}, observed=v)
        for smp in t.get('samples', []):
            msg = bytes.fromhex(smp['message'])
            try:
                ref_pcf = pcf.pcf(json.loads(smp['schema_json']))
            except Exception:
                run.count('typed_schemas_the_reference_cannot_canonicalise')
                continue
            run.count('typed_headers_checked_against_the_reference')
            exp_header = b'\xc3\x01' + crc64.fingerprint_le(ref_pcf.encode('utf-8'))
            case = {'type': t['name'], 'via': smp['via'], 'schema': smp['schema_json']}
            if msg[:10] != exp_header:
                lib_expected = b'\xc3\x01' + crc64.fingerprint_le((smp.get('pcf') or '').encode('utf-8'))
                if msg[:10] != lib_expected:
                    run.violation('typed-header-is-not-the-fingerprint-of-the-canonical-form via=%s' % smp['via'],
                                  'header of a message of the typed writer is not C3 01 + CRC-64-AVRO (LE) of the canonical form of the schema it encodes with', case,
                                  observed=msg[:10].hex(), expected=exp_header.hex())
                else:
                    for sg in attr_sigs(smp.get('pcf'), ref_pcf):
                        run.violation('header-fingerprint-differs-from-spec cause=pcf:%s' % sg, 'the header fingerprint is computed over a canonical form that deviates from the specification (see C12)',
                                      case, observed=msg[:10].hex(), expected=exp_header.hex())
    run.cov['typed_corpus_types'] = len(types)


def prev_kind(steps, i):
    if i == 0:
        return 'first'
    return steps[i - 1]['expect']


def replay(run, rc):
    c = rc['case']
    for k in ('step', 'bit', 'truncated_to'):
        c.pop(k, None)
    check(run, replay_case=c)
