"""C01 datum round-trip: decode(encode(v)) == v, exact consumption, validate on/off same bytes,
concatenated datums read back one after another."""
import json
import random

from . import common
from ..gen import value as gvalue
from ..ref import avrobin

LEVEL = 'exploration'


def ops_for(cid, text, vals, garbage):
    ops = [{'id': '%s/p' % cid, 'op': 'parse_schema', 'sid': cid, 'text': text}]
    for i, v in enumerate(vals):
        ops.append({'id': '%s/w%d' % (cid, i), 'op': 'datum_write', 'sid': cid, 'value': v, 'validate': 'both'})
    return ops


def check(run, replay_case=None):
    n_random = 2500 if run.quick() else 60000
    run.rule = ('deterministic boundary set (every varint boundary +-1, i32/i64 extremes, NaN payloads, signed zeros, '
                'infinities, empty/multi-element containers, every union branch, every logical type on every base, '
                'namespaces/references/recursion) + seeded random (schema, value) pairs; distinct = (schema shape, value shape); '
                'non-trivial = value tree has a non-null leaf')
    run.min_evaluations = 500
    run.min_distinct = 100
    if replay_case is not None:
        cases = [replay_case]
    else:
        cases = []
        for n, (j, node, env, vals, origin) in enumerate(common.all_cases(run.seed, n_random)):
            cases.append({'cid': 'c%d' % n, 'schema': j, 'values': vals, 'origin': origin})
    # phase 1: write
    phase1 = []
    for c in cases:
        phase1.append(ops_for(c['cid'], json.dumps(c['schema']), c['values'], None))
    ev = run.exec_cases(phase1)
    # phase 2: read back what was written (+ concatenation)
    phase2 = []
    for c in cases:
        cid = c['cid']
        pe = ev.get('%s/p' % cid)
        if pe is None:
            continue
        if 'ok' not in pe:
            run.violation('generated-schema-rejected kind=%s' % (pe.get('err', {}).get('kind') or 'panic'),
                          'parser rejected/panicked on a generated well-formed schema', c, observed=pe)
            continue
        ops = [{'id': '%s/p' % cid, 'op': 'parse_schema', 'sid': cid, 'text': json.dumps(c['schema'])}]
        c['bytes'] = []
        rng = random.Random('%s/%s' % (run.seed, cid))
        for i, v in enumerate(c['values']):
            w = ev.get('%s/w%d' % (cid, i))
            c['bytes'].append(None)
            if w is None:
                continue
            u = {'ok': w['ok']['off']} if 'ok' in w and 'off' in w['ok'] else w
            shape = (common.schema_shape(*_ne(c)), gvalue.shape(v))
            run.eval(shape, gvalue.nontrivial(v))
            bad = None
            for tag, e in (('validate-on', w), ('validate-off', u)):
                if 'panic' in e:
                    bad = ('write-panic site=%s' % e['panic']['site'], '%s write panicked' % tag, e)
                elif 'err' in e:
                    bad = ('write-error kind=%s' % e['err']['kind'], '%s writer setup failed' % tag, e)
                elif 'write_err' in e['ok']:
                    bad = ('write-error mode=%s kind=%s schema=%s' % (tag, e['ok']['write_err']['kind'], kind_at(c)),
                           'conforming value rejected by %s writer' % tag, e)
            if bad:
                run.violation(bad[0], bad[1], dict(c, value_index=i), observed=bad[2])
                continue
            if w['ok']['bytes'] != u['ok']['bytes']:
                run.violation('validate-on-off-differ schema=%s' % kind_at(c), 'validated and unvalidated writers emit different bytes',
                              dict(c, value_index=i), observed=[w['ok']['bytes'], u['ok']['bytes']])
                continue
            c['bytes'][i] = w['ok']['bytes']
            ops.append({'id': '%s/r%d' % (cid, i), 'op': 'datum_read', 'sid': cid, 'bytes': w['ok']['bytes']})
        good = [b for b in c['bytes'] if b is not None]
        if good:
            garbage = ''.join('%02x' % rng.getrandbits(8) for _ in range(rng.randint(0, 3)))
            c['garbage'] = garbage
            ops.append({'id': '%s/cat' % cid, 'op': 'datum_read', 'sid': cid, 'bytes': ''.join(good) + garbage, 'n': len(good)})
        phase2.append(ops)
    ev2 = run.exec_cases(phase2)
    for c in cases:
        cid = c['cid']
        if 'bytes' not in c:
            continue
        run.sample({'schema': c['schema'], 'value': c['values'][0], 'bytes': c['bytes'][0]})
        for i, v in enumerate(c['values']):
            b = c['bytes'][i]
            if b is None:
                continue
            e = ev2.get('%s/r%d' % (cid, i))
            if e is None:
                continue
            verdict_read(run, c, i, v, b, e, 'single')
        e = ev2.get('%s/cat' % cid)
        if e is not None:
            good = [(i, b) for i, b in enumerate(c['bytes']) if b is not None]
            if 'ok' not in e:
                run.violation('concat-read-failed', 'sequential read of concatenated datums failed', c, observed=e)
            else:
                items = e['ok']['items']
                for (i, b), it in zip(good, items):
                    if 'err' in it:
                        run.violation('concat-read-error kind=%s' % it['err']['kind'], 'datum %d of a concatenation failed to decode' % i, c, observed=it)
                        break
                    if not avrobin.veq(it['value'], c['values'][i]) or it['consumed'] != len(b) // 2:
                        run.violation('concat-mismatch schema=%s' % kind_at(c), 'k-th datum of a concatenation decodes differently or consumes a different length',
                                      dict(c, value_index=i), observed=it, expected={'value': c['values'][i], 'consumed': len(b) // 2})
                        break
                run.count('concatenations_read')
    run.cov['cases'] = len(cases)
    crashed = getattr(run, 'crashed', [])
    for info in crashed:
        pass


def _ne(c):
    from ..ref import names
    if '_ne' not in c:
        c['_ne'] = names.parse(c['schema'])
    return c['_ne']


def kind_at(c):
    node, env = _ne(c)
    from ..ref.names import kind_of
    return kind_of(node, env)


def verdict_read(run, c, i, v, b, e, how):
    if 'panic' in e:
        run.violation('read-panic site=%s' % e['panic']['site'], 'decoder panicked on its own encoder output', dict(c, value_index=i), observed=e)
        return
    if 'err' in e:
        run.violation('read-setup-error kind=%s' % e['err']['kind'], 'reader construction failed', dict(c, value_index=i), observed=e)
        return
    it = e['ok']['items'][0]
    run.count('datums_read')
    if 'err' in it:
        run.violation('roundtrip-read-error kind=%s schema=%s' % (it['err']['kind'], leaf_kind(c, v)), 'decoder rejects encoder output',
                      dict(c, value_index=i), observed=it)
        return
    if not avrobin.veq(it['value'], v):
        run.violation('roundtrip-value-differs at=%s' % diff_kind(v, it['value']), 'decode(encode(v)) != v',
                      dict(c, value_index=i), observed=it['value'], expected=v)
        return
    if it['consumed'] != len(b) // 2:
        run.violation('roundtrip-consumed-differs schema=%s' % kind_at(c), 'decoder consumed %d bytes of %d' % (it['consumed'], len(b) // 2),
                      dict(c, value_index=i), observed=it)


def leaf_kind(c, v):
    return kind_at(c)


def diff_kind(a, b):
    """tag of the first differing node"""
    if type(a) != type(b) or a is None or b is None:
        return tag(a) + '/' + tag(b)
    if isinstance(a, dict):
        ta, tb = tag(a), tag(b)
        if ta != tb:
            return ta + '/' + tb
        x, y = a[ta], b[tb]
        if ta in ('a',):
            if len(x) != len(y):
                return 'a.len'
            for p, q in zip(x, y):
                if not avrobin.veq(p, q):
                    return 'a.' + diff_kind(p, q)
        if ta in ('m', 'r'):
            if [p[0] for p in x] != [q[0] for q in y]:
                return ta + '.keys'
            for p, q in zip(x, y):
                if not avrobin.veq(p[1], q[1]):
                    return ta + '.' + diff_kind(p[1], q[1])
        if ta == 'u':
            if x[0] != y[0]:
                return 'u.index'
            return 'u.' + diff_kind(x[1], y[1])
        return ta
    return 'leaf'


def tag(v):
    if v is None:
        return 'null'
    if isinstance(v, dict):
        for k in v:
            if k != 'n':
                return k
    return '?'


def replay(run, rc):
    c = rc['case']
    c.pop('_ne', None)
    c.pop('bytes', None)
    check(run, replay_case=c)
