"""Shared workload for C05 (never panics / over-allocates / hangs) and C06 (successful decodes conform)."""
import bz2
import json
import os
import lzma
import random
import zlib

from . import common
from ..gen import schema as gschema
from ..gen import value as gvalue
from ..ref import names, avrobin, ocf, snappy
from ..ref.avrobin import enc_long

DEFAULT_L = 512 * 1024 * 1024

C05_PREFIXES = ('panic ', 'over-allocation', 'step-budget', 'cpu-budget', 'decompressed-above-limit', 'process-died')

# one shape per decoder arm and per guard
HAND = [
    'null', 'boolean', 'int', 'long', 'float', 'double', 'bytes', 'string',
    {'type': 'fixed', 'name': 'F', 'size': 4}, {'type': 'fixed', 'name': 'F0', 'size': 0},
    {'type': 'enum', 'name': 'E', 'symbols': ['A', 'B', 'C']},
    {'type': 'array', 'items': 'null'}, {'type': 'array', 'items': 'long'}, {'type': 'array', 'items': 'string'},
    {'type': 'array', 'items': {'type': 'record', 'name': 'Empty', 'fields': []}},
    {'type': 'map', 'values': 'null'}, {'type': 'map', 'values': 'bytes'},
    {'type': 'array', 'items': {'type': 'array', 'items': {'type': 'map', 'values': 'int'}}},
    ['null', 'long'], ['string', 'null'], ['null', 'boolean', 'int', 'long', 'float', 'double', 'bytes', 'string'],
    ['int', 'null'], [{'type': 'array', 'items': 'long'}, {'type': 'map', 'values': 'string'}, 'null'],
    {'type': 'record', 'name': 'R', 'fields': [{'name': 'a', 'type': 'boolean'}, {'name': 'b', 'type': 'string'}, {'name': 'c', 'type': ['null', 'long']}]},
    {'type': 'record', 'name': 'LongList', 'fields': [{'name': 'value', 'type': 'long'}, {'name': 'next', 'type': ['null', 'LongList']}]},
    {'type': 'record', 'name': 'Tree', 'fields': [{'name': 'kids', 'type': {'type': 'array', 'items': 'Tree'}}]},
    {'type': 'int', 'logicalType': 'date'}, {'type': 'int', 'logicalType': 'time-millis'}, {'type': 'long', 'logicalType': 'time-micros'},
    {'type': 'long', 'logicalType': 'timestamp-millis'}, {'type': 'long', 'logicalType': 'timestamp-nanos'}, {'type': 'long', 'logicalType': 'local-timestamp-micros'},
    {'type': 'bytes', 'logicalType': 'decimal', 'precision': 10, 'scale': 2}, {'type': 'fixed', 'name': 'D', 'size': 6, 'logicalType': 'decimal', 'precision': 10},
    {'type': 'bytes', 'logicalType': 'big-decimal'},
    {'type': 'string', 'logicalType': 'uuid'}, {'type': 'bytes', 'logicalType': 'uuid'}, {'type': 'fixed', 'name': 'U', 'size': 16, 'logicalType': 'uuid'},
    {'type': 'fixed', 'name': 'Du', 'size': 12, 'logicalType': 'duration'},
    {'type': 'record', 'name': 'Mix', 'fields': [{'name': 'u', 'type': {'type': 'string', 'logicalType': 'uuid'}}, {'name': 'd', 'type': {'type': 'bytes', 'logicalType': 'big-decimal'}},
                                                  {'name': 'e', 'type': {'type': 'enum', 'name': 'E2', 'symbols': ['X']}}, {'name': 'm', 'type': {'type': 'map', 'values': ['null', 'double']}}]},
]


def _pay(n):
    return bytes((i * 7 + 3) & 0xff for i in range(n)).hex()


# (schema, value of payload size n)
LARGE = [
    ('bytes', lambda n: {'B': _pay(n)}),
    ('string', lambda n: {'s': 'a' * n}),
    ({'type': 'record', 'name': 'LR', 'fields': [{'name': 'a', 'type': 'long'}, {'name': 'b', 'type': 'string'}]}, lambda n: {'r': [['a', {'l': 7}], ['b', {'s': 'x' * n}]]}),
    ({'type': 'array', 'items': 'bytes'}, lambda n: {'a': [{'B': '00'}, {'B': _pay(n)}]}),
    ({'type': 'map', 'values': 'long'}, lambda n: {'m': [['k' * n, {'l': 1}]]}),
    (['null', 'bytes'], lambda n: {'u': [1, {'B': _pay(n)}]}),
]
LARGE_JSON = [json.dumps(j, sort_keys=True) for j, _ in LARGE]


def schema_corpus(seed, n_generated):
    out = list(HAND) + [j for j, _ in LARGE if j not in HAND]
    for j in ({'type': 'array', 'items': 'null'}, {'type': 'array', 'items': 'long'}, {'type': 'map', 'values': 'null'}):
        if j not in out:
            out.append(j)
    for i in range(n_generated):
        rng = random.Random('%s/fz/%d' % (seed, i))
        out.append(gschema.SchemaGen(rng, gschema.Opts(max_depth=rng.choice([1, 2, 3]))).gen())
    return out


def decode_ops(seed, schemas, limit, heavy, exhaustive_len, n_random, deser=True, tag='z'):
    batches = []
    for i, j in enumerate(schemas):
        node, env = names.parse(j)
        rng = random.Random('%s/fzv/%d' % (seed, i))
        vg = gvalue.ValueGen(rng, env, max_depth=5, max_len=3, max_map=2)
        valid = []
        for _ in range(3):
            b = avrobin.encode(node, env, vg.gen(node))
            if len(b) <= 4096:
                valid.append(b.hex())
        sid = '%s%d' % (tag, i)
        if json.dumps(j, sort_keys=True) in LARGE_JSON:
            # data with long payloads (code that reads in chunks has its boundaries far from where small values reach)
            for n in (1023, 4097, 16383, 16384, 16385, 32769, 65536, 70001):
                if n * 2 <= limit:
                    valid.append(avrobin.encode(node, env, LARGE[LARGE_JSON.index(json.dumps(j, sort_keys=True))][1](n)).hex())
        if limit <= (4 << 20):
            # spec-legal data in MANY blocks: every block's declared count fits the limit on its own, the running total does not
            # (the guard has to be cumulative); sizes: Value is 56 bytes, a map entry 80
            js = json.dumps(j, sort_keys=True)
            if js == json.dumps({'type': 'array', 'items': 'null'}, sort_keys=True):
                c = limit // 56 - 1
                valid.append((enc_long(c) * 12 + b'\x00').hex())
            elif js == json.dumps({'type': 'array', 'items': 'long'}, sort_keys=True):
                c = min(limit // 56 - 1, 1500)
                valid.append(((enc_long(c) + b'\x02' * c) * max(12, 12 * (limit // 56) // c) + b'\x00').hex())
            elif js == json.dumps({'type': 'map', 'values': 'null'}, sort_keys=True):
                c = min(limit // 80 - 1, 1500)
                blocks = b''
                n = 0
                for _ in range(max(12, 12 * (limit // 80) // c)):
                    blocks += enc_long(c)
                    for _ in range(c):
                        k = ('%x' % n).encode()
                        blocks += enc_long(len(k)) + k
                        n += 1
                valid.append((blocks + b'\x00').hex())
        batches.append([{'id': '%s/p' % sid, 'op': 'parse_schema', 'sid': sid, 'text': json.dumps(j)},
                        {'id': '%s/f' % sid, 'op': 'fuzz_decode', 'sid': sid, 'valid': valid, 'limit': limit, 'heavy': heavy,
                         'exhaustive_len': exhaustive_len if i < len(HAND) else min(exhaustive_len, 3), 'random': n_random, 'seed': rng.getrandbits(48), 'deser': deser}])
    return batches


def manual_file(schema_text, meta_extra, blocks, codec=None, sync=b'\x11' * 16, raw_meta=None):
    """blocks: list of (count, payload bytes) written verbatim"""
    items = [('avro.schema', schema_text.encode('utf-8'))]
    if codec:
        items.append(('avro.codec', codec.encode() if isinstance(codec, str) else codec))
    items += meta_extra
    out = bytearray(ocf.MAGIC)
    out += raw_meta if raw_meta is not None else ocf.enc_meta(items)
    out += sync
    for cnt, payload in blocks:
        out += enc_long(cnt) + enc_long(len(payload)) + payload + sync
    return bytes(out)


def hostile_files(limit):
    """crafted container files: hostile header metadata and hostile embedded schemas"""
    L = limit
    fs = []
    ok_schema = '"long"'
    for codec in ('bzip2', 'xz', 'zstandard', 'deflate', 'snappy', 'null'):
        fs.append(manual_file(ok_schema, [('avro.codec.compression_level', b'')], [], codec=codec))
        fs.append(manual_file(ok_schema, [('avro.codec.compression_level', b'\xff')], [(1, b'\x02')], codec=codec))
        fs.append(manual_file(ok_schema, [('avro.codec.compression_level', b'\x00' * 9)], [(1, b'\x02')], codec=codec))
    fs.append(manual_file(ok_schema, [], [(1, b'\x02')], codec=b'\xff\xfe'))
    fs.append(manual_file(ok_schema, [], [(1, b'\x02')], codec='lzo'))
    fs.append(manual_file(ok_schema, [], [(1, b'\x02')], codec=''))
    fs.append(manual_file('not json', [], []))
    fs.append(manual_file('{"type":"record"}', [], []))
    fs.append(manual_file('', [], []))
    # metadata map whose values are not what the reader expects / missing schema
    fs.append(bytes(ocf.MAGIC) + ocf.enc_meta([('avro.codec', b'null')]) + b'\x11' * 16)
    fs.append(bytes(ocf.MAGIC) + b'\x00' + b'\x11' * 16)
    # hostile embedded schemas
    for size in (L + 1, 3 * L, 16 * L, 2 ** 40, 2 ** 63, 2 ** 64 - 1):
        fs.append(manual_file('{"type":"fixed","name":"F","size":%d}' % size, [], [(1, b'ab')]))
        fs.append(manual_file('{"type":"array","items":{"type":"fixed","name":"F","size":%d}}' % size, [], [(1, b'\x02ab\x00')]))
        fs.append(manual_file('{"type":"fixed","name":"D","size":%d,"logicalType":"decimal","precision":5}' % size, [], [(1, b'ab')]))
        fs.append(manual_file('{"type":"fixed","name":"U","size":%d,"logicalType":"uuid"}' % size, [], [(1, b'ab')]))
    fs.append(manual_file('{"type":"bytes","logicalType":"decimal","precision":%d,"scale":%d}' % (2 ** 62, 2 ** 61), [], [(1, b'\x02a')]))
    fs.append(manual_file(json.dumps({'type': 'record', 'name': 'Wide', 'fields': [{'name': 'f%d' % i, 'type': 'long'} for i in range(3000)]}), [], [(1, b'\x00' * 3000)]))
    fs.append(manual_file(json.dumps({'type': 'enum', 'name': 'Many', 'symbols': ['S%d' % i for i in range(5000)]}), [], [(2, b'\x00\x02')]))
    deep = '"long"'
    for i in range(100):
        deep = '{"type":"array","items":%s}' % deep
    fs.append(manual_file(deep, [], [(1, b'\x00')]))
    # block headers with hostile counts / sizes
    for cnt in (-1, 2 ** 62, L // 56 + 1, 10 ** 9):
        fs.append(manual_file('"null"', [], [(cnt, b'')]))
        fs.append(manual_file('"long"', [], [(cnt, b'\x02')]))
    out = bytearray(manual_file('"long"', [], []))
    for size in (-1, L + 1, 16 * L, 2 ** 62):
        fs.append(bytes(out) + enc_long(1) + enc_long(size) + b'\x02' + b'\x11' * 16)
    return fs


def valid_files(seed):
    fs = []
    for i, j in enumerate(['long', 'string', {'type': 'array', 'items': 'null'}, HAND[23], HAND[24], {'type': 'map', 'values': 'bytes'}]):
        node, env = names.parse(j)
        rng = random.Random('%s/fzf/%d' % (seed, i))
        vg = gvalue.ValueGen(rng, env, max_depth=4, max_len=3)
        blocks = [[vg.gen(node) for _ in range(rng.choice([1, 3, 70]))] for _ in range(2)]
        codec = ['null', 'deflate', 'snappy', 'bzip2', 'xz', 'null'][i]
        fs.append(ocf.write(json.dumps(j), node, env, blocks, codec=codec, rng=rng, user_meta=[('k', b'v')]))
    return fs


def codec_streams(seed, limit, thorough):
    rng = random.Random('%s/fzc' % seed)
    payloads = [b'', b'a', bytes(1000), b'hello world ' * 50, bytes(rng.getrandbits(8) for _ in range(700))]
    bomb_n = min(16 * limit, (64 << 20) if thorough else (8 << 20))
    bomb = bytes(bomb_n) if limit <= (1 << 20) else None
    out = {}
    for name in ('deflate', 'bzip2', 'xz', 'snappy'):
        ss = []
        for p in payloads + ([bomb] if bomb is not None else []):
            if name == 'deflate':
                c = zlib.compressobj(9, zlib.DEFLATED, -15)
                s = c.compress(p) + c.flush()
            elif name == 'bzip2':
                s = bz2.compress(p)
            elif name == 'xz':
                s = lzma.compress(p, format=lzma.FORMAT_XZ)
            else:
                s = snappy.compress(p) + zlib.crc32(p).to_bytes(4, 'big')
            if len(s) < 200000:
                ss.append(s.hex())
        # declared-length attacks for snappy: length varint far above the limit, tiny body
        if name == 'snappy':
            for n in (limit + 1, 16 * limit, 2 ** 31, 2 ** 32 - 1):
                hdr = bytearray()
                x = n
                while True:
                    if x > 0x7f:
                        hdr.append(0x80 | (x & 0x7f))
                        x >>= 7
                    else:
                        hdr.append(x)
                        break
                ss.append((bytes(hdr) + b'\x00a' + b'\x00\x00\x00\x00').hex())
        out[name] = ss
    return out


def run_engines(run, limits, which):
    """runs the fuzz engines; returns list of (signature, count, first, context)"""
    thorough = not run.quick()
    found = []
    n_gen = (20 if which == 'c06' else 10) if run.quick() else 120
    schemas = schema_corpus(run.seed, n_gen)
    for L in limits:
        heavy = L >= (64 << 20)
        settings = {'max_allocation_bytes': L}
        exhaustive_len = (3 if run.quick() else 4) if heavy else (4 if run.quick() else 5)
        batches = decode_ops(run.seed, schemas, L, heavy, exhaustive_len, 300 if run.quick() else 5000)
        extra = []
        if which == 'c05':
            files = [f.hex() for f in hostile_files(L)]
            vfiles = [f.hex() for f in valid_files(run.seed)]
            chunk = 12
            for k in range(0, len(files), chunk):
                extra.append([{'id': 'hf%d' % k, 'op': 'fuzz_container', 'files': files[k:k + chunk], 'limit': L, 'heavy': heavy, 'mutate': False}])
            for k, f in enumerate(vfiles):
                extra.append([{'id': 'vf%d' % k, 'op': 'fuzz_container', 'files': [f], 'limit': L, 'heavy': heavy, 'mutate': True}])
            for name, ss in codec_streams(run.seed, L, thorough).items():
                extra.append([{'id': 'cd%s' % name, 'op': 'fuzz_codec', 'codec': {'name': name}, 'streams': ss, 'limit': L, 'random': 300, 'seed': 7}])
            for i, j in enumerate(HAND[:30:3]):
                node, env = names.parse(j)
                rng = random.Random('%s/fzso/%d' % (run.seed, i))
                vg = gvalue.ValueGen(rng, env, max_depth=4, max_len=3)
                from ..ref import pcf, crc64
                hdr = b'\xc3\x01' + crc64.fingerprint_le(pcf.pcf(j).encode())
                msgs = [(hdr + avrobin.encode(node, env, vg.gen(node))).hex() for _ in range(2)]
                extra.append([{'id': 'so%d/p' % i, 'op': 'parse_schema', 'sid': 'so%d' % i, 'text': json.dumps(j)},
                              {'id': 'so%d/f' % i, 'op': 'fuzz_single_object', 'sid': 'so%d' % i, 'messages': msgs, 'limit': L}])
        ev = run.exec_cases(batches + extra, settings=settings, crash_is_violation=True, cpu_limit_s=3000)
        st = ev.get('__settings')
        if st is None or st.get('ok', {}).get('max_allocation_bytes') != L:
            run.inconc('allocation limit %d could not be configured in the worker: %s' % (L, json.dumps(st)[:200]))
            continue
        for info in getattr(run, 'crashed', []):
            opid, opname, rc, err = info
            found.append(('process-died op=%s rc=%s' % (opname, rc), 1, {'stderr': err[-600:], 'op': opid}, {'limit': L}))
        run.crashed = []
        for k, e in ev.items():
            if k == '__settings' or k is None or k.endswith('/p'):
                continue
            if 'ok' not in e:
                if 'panic' in e:
                    found.append(('panic entry=engine site=%s' % e['panic']['site'], 1, e['panic'], {'limit': L, 'op': k}))
                elif 'err' in e:
                    run.count('engine_ops_with_setup_error')
                continue
            r = e['ok']
            run.evaluations += r.get('calls', 0)
            run.count('calls_limit_%s' % ('default' if L == DEFAULT_L else L), r.get('calls', 0))
            for key in ('exhaustive_strings', 'mutations', 'strict_prefixes', 'ok_values_checked', 'ok'):
                if key in r:
                    run.count(key if key != 'ok' else 'decodes_that_returned_ok', r[key])
            run.note_max('max_single_alloc_seen_limit_%s' % ('default' if L == DEFAULT_L else L), r.get('max_single_alloc'))
            run.note_max('max_steps_seen', r.get('max_steps'))
            run.note_max('max_cpu_ms_single_call', r.get('max_cpu_ms'))
            ctx = {'limit': L, 'op': k}
            if k.endswith('/f') and k[0] == 'z':
                ctx['schema'] = schemas[int(k[1:-2])]
            run.distinct.add(repr((k.rstrip('0123456789'), L, json.dumps(ctx.get('schema'))[:100])).encode())
            for v in r['violations']:
                found.append((v['sig'], v['count'], v['first'], ctx))
    if which == 'c05' and (thorough or os.environ.get('VERIF_SANITIZERS') == '1'):
        # memory-safety monitors over the decompressors (the part of the decode path that is not safe Rust):
        # Miri for the Rust codecs (snappy, deflate, bzip2), valgrind memcheck for the C ones (xz, zstandard) and the container path
        from .. import sanitizers
        L = min(limits)
        streams = codec_streams(run.seed, L, False)
        small = {n: [x for x in ss if len(x) <= 1200][:14] for n, ss in streams.items()}
        miri_cases = [[{'id': 'mcd%s%d' % (n, k), 'op': 'fuzz_codec', 'codec': {'name': n}, 'streams': small[n][k::2], 'limit': L, 'random': 6, 'seed': 11}]
                      for n in ('snappy', 'deflate', 'bzip2') if small.get(n) for k in range(2)]
        sanitizers.miri_stage(run, miri_cases, {}, max_cases=len(miri_cases), shards=6, what='codec_ops', max_bytes=10 ** 9, settings={'max_allocation_bytes': L})
        vg_cases = [[{'id': 'vcd%s' % n, 'op': 'fuzz_codec', 'codec': {'name': n}, 'streams': [x for x in ss if len(x) <= 40000][:40], 'limit': L, 'random': 60, 'seed': 13}]
                    for n, ss in streams.items()]
        hf = [f.hex() for f in hostile_files(L)][:60]
        vg_cases += [[{'id': 'vhf%d' % k, 'op': 'fuzz_container', 'files': hf[k:k + 12], 'limit': L, 'heavy': False, 'mutate': False}] for k in range(0, len(hf), 12)]
        sanitizers.memcheck_stage(run, vg_cases, {}, max_cases=len(vg_cases), shards=12, settings={'max_allocation_bytes': L})
    run.cov['limits_run'] = ['default' if L == DEFAULT_L else L for L in limits]
    run.cov['schemas_in_corpus'] = len(schemas)
    return found
