"""C05 decoding untrusted bytes never panics, aborts, hangs or over-allocates."""
from . import fuzzcommon as F

LEVEL = 'exploration'


def check(run, replay_case=None):
    run.rule = ('per allocation limit (fresh worker processes, limit configured first): exhaustive byte strings up to length 3-5 over a 12-byte alphabet, every strict prefix, '
                'bit flips and hostile varint splices {-1, i64::MIN, 2^31, 2^62, L/8, L-1, L, L+1, 16L, L/56(+1)} at every offset of valid encodings, splices, random bytes, through '
                'read_value and read_deser::<AnyValue>; mutated and crafted container files (hostile header metadata, hostile embedded schemas: huge fixed size, huge precision, '
                'thousands of fields/symbols, deep nesting, hostile block counts/sizes); single-object reader; Codec::decompress on mutated streams and bombs; '
                'monitors: panic hook, counting allocator (single request <= 4L+64|input|+64KiB), step counter, CPU time; distinct = (engine, schema, limit)')
    run.min_evaluations = 50000
    run.min_distinct = 40
    run.assumptions = ['allocation bound 4*L + 64*|input| + 64 KiB (justified in DESIGN.md C05)', 'never hangs decided as bounded progress: logical step bound for the deserializer, per-call CPU budget 5 s, process CPU rlimit',
                       'data nesting depth limited by input size <= 4 KiB on a 1 GiB stack (unbounded recursion depth is a stated non-goal)']
    limits = [64 << 10, F.DEFAULT_L] if run.quick() else [4 << 10, 64 << 10, 1 << 20, F.DEFAULT_L]
    if replay_case is not None and 'limit' in replay_case:
        limits = [replay_case['limit']]
    found = F.run_engines(run, limits, 'c05')
    for sig, count, first, ctx in found:
        if sig.startswith(F.C05_PREFIXES):
            run.violation(sig, '%s (%d occurrences); first witness: %s' % (sig, count, str(first)[:300]), ctx, observed=first)
        else:
            run.count('c06_class_observations_(judged_by_C06)', count)
    run.sample({'note': 'inputs are enumerated in-process; witnesses of violations are written to the replay files', 'limits': run.cov.get('limits_run')})


def replay(run, rc):
    check(run, replay_case=rc['case'])
