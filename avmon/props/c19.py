"""C19 process-wide settings are first-set-wins, uniformly enforced and thread-safe."""
import json
import os
import random
import re
import subprocess
from concurrent.futures import ThreadPoolExecutor

from .. import driver

LEVEL = 'exploration'
DEFAULT_L = 512 * 1024 * 1024
LIMITS = [0, 1, 1000, 4096, 65536, 1 << 20, DEFAULT_L, 2 ** 64 - 1]


def make_plan(rng, n_threads, focus):
    threads = []
    for t in range(n_threads):
        ops = []
        for _ in range(rng.randint(1, 3)):
            c = rng.random()
            if focus == 'limit':
                ops.append({'o': 'set_limit', 'v': rng.choice(LIMITS)} if c < 0.7 else {'o': 'use_limit'})
            elif focus == 'hr':
                ops.append({'o': 'set_hr', 'v': rng.random() < 0.5} if c < 0.75 else {'o': 'use_hr'})
            elif focus == 'validators':
                ops.append({'o': 'set_validator', 'which': rng.choice(['name', 'namespace', 'symbol', 'field'])} if c < 0.7 else {'o': 'use_validators'})
            elif focus == 'comparator':
                ops.append({'o': 'set_comparator'} if c < 0.7 else {'o': 'use_comparator'})
            else:
                ops.append(rng.choice([{'o': 'set_limit', 'v': rng.choice(LIMITS)}, {'o': 'use_limit'}, {'o': 'set_hr', 'v': rng.random() < 0.5}, {'o': 'use_hr'},
                                       {'o': 'set_validator', 'which': rng.choice(['name', 'namespace', 'symbol', 'field'])}, {'o': 'use_validators'},
                                       {'o': 'set_comparator'}, {'o': 'use_comparator'}]))
        threads.append(ops)
    return {'threads': threads, 'jitter': [rng.randint(0, 2000) for _ in range(n_threads)]}


def run_trial(args):
    workdir, idx, plan = args
    path = os.path.join(workdir, 'plan%d.json' % idx)
    with open(path, 'w') as f:
        json.dump(plan, f)
    try:
        p = subprocess.run([driver.EXEC_BIN, 'race', path], stdout=subprocess.PIPE, stderr=subprocess.PIPE, timeout=300)
    except subprocess.TimeoutExpired:
        return idx, plan, None, 'timeout'
    finally:
        try:
            os.unlink(path)
        except OSError:
            pass
    if p.returncode != 0:
        return idx, plan, None, 'rc=%d %s' % (p.returncode, p.stderr[-300:].decode('utf-8', 'replace'))
    try:
        return idx, plan, json.loads(p.stdout), None
    except ValueError:
        return idx, plan, None, 'bad output'


def once_register(run, case, setting, sets, uses, in_force, default, fmt=lambda x: x):
    """write-once register: `sets` = [(proposed, returned, t_call, t_ret)], `uses` = [(t_call, t_ret)]"""
    w = in_force
    # every caller is told the value in force
    for prop, ret, tc, tr in sets:
        if ret != w:
            run.violation('setter-told-a-value-not-in-force setting=%s' % setting, 'a setter returned %r while the value in force afterwards is %r' % (fmt(ret), fmt(w)), case,
                          observed={'returned': ret, 'in_force': w})
            return
    # w is the proposal of a call invoked before any call returned, or the default iff a use could have been first
    first_ret = min([tr for _, _, _, tr in sets] + [tr for _, tr in uses]) if (sets or uses) else None
    cands = [prop for prop, _, tc, _ in sets if first_ret is None or tc <= first_ret]
    default_ok = any(tc <= first_ret for tc, _ in uses) if first_ret is not None else True
    if not sets and not uses:
        default_ok = True
    if w in cands:
        return
    if w == default and (default_ok or not sets):
        return
    run.violation('value-in-force-not-linearizable setting=%s %s' % (setting, 'nobody-proposed-it' if w not in [p for p, _, _, _ in sets] and w != default else 'not-a-first-call'),
                  'the value in force %r is neither the proposal of a call that could have been first nor an admissible default' % fmt(w), case,
                  observed={'in_force': w, 'first_candidates': cands, 'default_admissible': default_ok})


def judge(run, case, out, focus, winners, engine):
    """the oracle over one recorded race history (native, Miri or ThreadSanitizer execution)"""
    plan = case['plan']
    evs = [e for e in out['events'] if 'o' in e]
    if any('thread_panicked' in e for e in out['events']):
        run.violation('thread-panicked-during-race', 'a thread panicked while setting/using a process-wide setting', case, observed=out['events'])
        return
    order = tuple(e['t'] for e in sorted(evs, key=lambda e: e['t_ret']))[:6]
    conflicting = len(set(json.dumps(e['proposed']) for e in evs if e['o'].startswith('set'))) > 1
    run.eval((engine, focus, len(plan['threads']), order), conflicting)
    run.hist('trials_by_focus', focus)
    run.hist('histories_by_engine', engine)
    if len(run.samples) < 4:
        run.sample({'focus': focus, 'threads': len(plan['threads']), 'events': evs[:8], 'limit_in_force': out['limit_in_force'], 'peek': out['peek']})
    obs = out['observations']
    # observations after the race never change
    if any(json.dumps(o, sort_keys=True) != json.dumps(obs[0], sort_keys=True) for o in obs[1:]):
        run.violation('setting-changed-after-the-race', 'repeated observations after the race differ', case, observed=obs)
        return
    # ---- limit
    sets = [(e['proposed'], e['ret'], e['t_call'], e['t_ret']) for e in evs if e['o'] == 'set_limit']
    uses = [(e['t_call'], e['t_ret']) for e in evs if e['o'] == 'use_limit']
    w = obs[0]['limit']
    # the sweep and the probes run after the race and initialise the cell if nobody did: that is a "use"
    once_register(run, case, 'max_allocation_bytes', sets, uses + [(10 ** 18, 10 ** 18 + 1)], w, DEFAULT_L)
    pk = out['peek']
    if pk and (sets or uses) and pk['limit'] is not None and pk['limit'] != w:
        run.violation('peek-differs-from-reported setting=max_allocation_bytes', 'the cell holds %r but callers are told %r' % (pk['limit'], w), case)
    if sets:
        win = [t for t, e in enumerate(evs) if e['o'] == 'set_limit' and e['proposed'] == w]
        winners.setdefault('limit', {}).setdefault(str(sorted(set(evs[i]['t'] for i in win))[:1]), 0)
        winners['limit'][str(sorted(set(evs[i]['t'] for i in win))[:1])] += 1
    # ---- human readable: asking for true returns v, asking for false returns v
    sets = [(e['proposed'], e['ret'], e['t_call'], e['t_ret']) for e in evs if e['o'] == 'set_hr']
    # building a datum reader reads the human-readable default: use_limit is a use of this setting too
    uses = [(e['t_call'], e['t_ret']) for e in evs if e['o'] in ('use_hr', 'use_limit')]
    hr_t, hr_f = obs[0]['hr_when_asked_true'], obs[0]['hr_when_asked_false']
    if True:
        if hr_t != hr_f:
            run.violation('human-readable-flag-not-fixed', 'after the race the setter returns its own argument', case, observed=obs[0])
        else:
            once_register(run, case, 'serde_human_readable', sets, uses + [(10 ** 18, 10 ** 18 + 1)], hr_t, False)
    # ---- validators and comparator: exactly one setter told Ok unless a use preceded all of them
    for which in ('name', 'namespace', 'symbol', 'field', 'comparator'):
        if which == 'comparator':
            ss = [e for e in evs if e['o'] == 'set_comparator']
            us = [e for e in evs if e['o'] == 'use_comparator']
            inforce = obs[0]['comparators_matching_probe']
        else:
            ss = [e for e in evs if e['o'] == 'set_validator' and e.get('which') == which]
            us = [e for e in evs if e['o'] == 'use_validators']
            inforce = obs[0]['validators_accepting_probe'][which]
        if not ss:
            if inforce:
                run.violation('validator-in-force-nobody-set which=%s' % which, 'a custom %s is in force although nobody registered one' % which, case, observed=inforce)
            continue
        oks = [e for e in ss if e['ret'] is True]
        first_ret = min(e['t_ret'] for e in ss + us)
        use_could_be_first = any(e['t_call'] <= first_ret for e in us)
        if len(oks) > 1:
            run.violation('two-setters-told-ok which=%s' % which, 'two registrations of the write-once %s both reported success' % which, case, observed=[e['t'] for e in oks])
        elif len(oks) == 0 and not use_could_be_first:
            run.violation('no-setter-won which=%s' % which, 'every registration failed although no use could have initialised the default first', case)
        elif len(oks) == 1:
            wt = oks[0]['t']
            if inforce != [wt]:
                run.violation('winner-not-in-force which=%s' % which, 'thread %d was told its %s is registered, but the one in force accepts probes of %r' % (wt, which, inforce), case)
            if oks[0]['t_call'] > first_ret:
                run.violation('winner-not-a-first-call which=%s' % which, 'the registration that won was invoked after another call had already returned', case)
            winners.setdefault(which, {}).setdefault(str(wt), 0)
            winners[which][str(wt)] += 1
        elif inforce:
            run.violation('validator-in-force-but-no-setter-told-ok which=%s' % which, 'a custom %s is in force, yet every registration reported failure' % which, case, observed=inforce)
    # ---- uniformity sweep: accepted iff declared <= w
    wlim = 2 ** 64 - 1 if out['limit_is_usize_max'] else out['limit_in_force']
    for s in out['sweep']:
        run.count('guard_probes')
        g, d, r = s['guard'], s['declared'], s['r']
        if r.startswith('panic'):
            run.violation('guard-panics guard=%s' % g.replace('-overflow', ''), 'a guard probe panicked (%s) at limit %d' % (r, wlim), dict(case, probe=s))
            continue
        if g.endswith('-overflow'):
            if r == 'ok':
                run.violation('overflowing-count-accepted guard=%s' % g, 'an element count whose byte size overflows was accepted', dict(case, probe=s))
            continue
        accepted = r != 'limit'
        if d > 2 ** 63 - 1:
            # no allocator can provide more than isize::MAX bytes: an error of either kind is right, only a panic is wrong
            run.count('guard_probes_beyond_isize_max')
            continue
        if d <= wlim and not accepted:
            run.violation('guard-rejects-length-within-limit guard=%s' % g, 'declared %d <= limit %d was rejected' % (d, wlim), dict(case, probe=s, limit=wlim))
        elif d > wlim and accepted:
            run.violation('guard-accepts-length-above-limit guard=%s' % g, 'declared %d > limit %d passed the guard (%s)' % (d, wlim, r), dict(case, probe=s, limit=wlim))
        run.hist('guards_probed', g)
    run.hist('limits_in_force', 'default' if wlim == DEFAULT_L else 'usize::MAX' if wlim == 2 ** 64 - 1 else str(wlim))


def sanitizer_stages(run, rng, winners):
    """the same race binary under Miri (data-race + UB detection, many scheduler seeds; every history also goes
    through the oracle) and under ThreadSanitizer (std rebuilt with -Zbuild-std)"""
    from .. import sanitizers
    n_plans = int(os.environ.get('VERIF_MIRI_PLANS', '12'))
    seeds = os.environ.get('VERIF_MIRI_SEEDS', '0..16')
    plans = []
    for i in range(n_plans):
        focus = ['limit', 'hr', 'validators', 'comparator', 'mix', 'mix'][i % 6]
        p = make_plan(rng, [2, 3, 4, 6][i % 4], focus)
        p['sweep'] = False
        # small limits only: the guard sweep is off and the probes stay cheap under the interpreter
        for t in p['threads']:
            for op in t:
                if op['o'] == 'set_limit':
                    op['v'] = rng.choice([0, 1, 1000, 4096, 65536])
        plans.append((focus, p))

    def one(a):
        i, (focus, p) = a
        wd = os.path.join(run.workdir, 'mr%d' % i)
        os.makedirs(wd, exist_ok=True)

        class R:
            workdir = wd
        return focus, p, sanitizers.miri_race(R, p, seeds=seeds)
    with ThreadPoolExecutor(max_workers=6) as ex:
        res = list(ex.map(one, enumerate(plans)))
    for focus, p, (outs, report) in res:
        case = {'plan': p, 'focus': focus, 'engine': 'miri', 'seeds': seeds}
        if report == 'timeout':
            run.inconc('a Miri race run exceeded its watchdog')
            continue
        if report and report.startswith('rc='):
            run.inconc('Miri race run ended abnormally: %s' % report[:300])
            continue
        if report:
            run.violation('miri-report %s' % sanitizers._miri_kind(report), 'Miri reported during the race: %s' % report[:600], case, observed=report)
        for out in outs:
            if 'events' in out:
                run.count('miri_race_histories')
                judge(run, case, out, focus, winners, 'miri')
    if not run.cov.get('miri_race_histories'):
        run.inconc('the Miri stage produced no race history')
    # ---- ThreadSanitizer
    binary, err = sanitizers.tsan_build(run)
    if binary is None:
        run.inconc('ThreadSanitizer build failed: %s' % (err or '')[-300:])
        return
    n_tsan = int(os.environ.get('VERIF_TSAN_TRIALS', '120'))
    tplans = []
    for i in range(n_tsan):
        focus = ['limit', 'hr', 'validators', 'comparator', 'mix', 'mix'][i % 6]
        p = make_plan(rng, [4, 8, 16][i % 3], focus)
        p['heavy'] = False
        for t in p['threads']:
            for op in t:
                if op['o'] == 'set_limit' and op['v'] > (1 << 20):
                    op['v'] = rng.choice([0, 1, 1000, 4096, 65536, 1 << 20])
        tplans.append((focus, p))

    def tone(a):
        i, (focus, p) = a
        try:
            return focus, p, sanitizers.tsan_race(run, binary, p, i)
        except subprocess.TimeoutExpired:
            return focus, p, (None, 'timeout', None)
    with ThreadPoolExecutor(max_workers=8) as ex:
        tres = list(ex.map(tone, enumerate(tplans)))
    seen = set()
    for focus, p, (rc, reports, out) in tres:
        case = {'plan': p, 'focus': focus, 'engine': 'tsan'}
        if reports == 'timeout':
            run.inconc('a ThreadSanitizer trial exceeded its watchdog')
            continue
        run.count('tsan_trials')
        for kind, body in reports:
            frames = [f for f in re.findall(r'#\d+ (\S+)', body) if 'avmon' not in f and not f.startswith('__tsan')]
            key = (kind.split(' (')[0], tuple(frames[:2]))
            if key in seen:
                continue
            seen.add(key)
            run.violation('tsan-report kind=%s at=%s' % (key[0].replace(' ', '-'), (frames[0] if frames else '?')[:80]), 'ThreadSanitizer: %s' % kind, case, observed=body)
        if out is not None and 'events' in out:
            judge(run, case, out, focus, winners, 'tsan')
        elif rc not in (0, 66):
            run.inconc('ThreadSanitizer trial ended with rc=%s' % rc)


def check(run, replay_case=None):
    n_trials = 320 if run.quick() else 1600
    run.rule = ('fresh process per trial; N in {2,4,8,16} threads released by a spin barrier with 0-2 us jitter; each thread performs 1-3 first-time set/use operations on one '
                'setting family (or a mix): allocation limit (values 0..usize::MAX), human-readable flag, the four validators, the comparator; history checked against a write-once '
                'register; then peek hooks + behavioural probes (three rounds) and the uniformity sweep: declared lengths w-1, w, w+1 at every guard; distinct = (focus, N, winner '
                'thread, return-order permutation prefix); non-trivial = at least two threads set conflicting values')
    run.min_evaluations = 100
    run.min_distinct = 30
    run.assumptions = ['timestamps from one monotonic clock inside the process; per-thread event vectors joined after the race', 'write-once register model in this file']
    rng = random.Random('%s/c19' % run.seed)
    if replay_case is not None and 'plan' in replay_case:
        plans = [replay_case['plan']] * 50
        foci = [replay_case.get('focus', 'mix')] * 50
    else:
        plans, foci = [], []
        for i in range(n_trials):
            focus = ['limit', 'limit', 'hr', 'validators', 'comparator', 'mix'][i % 6]
            plans.append(make_plan(rng, [2, 4, 8, 16][i % 4], focus))
            # the 512 MiB container-block probe at the default limit is affordable only now and then
            plans[-1]['heavy'] = (i % 10 == 0)
            foci.append(focus)
    jobs = [(run.workdir, i, p) for i, p in enumerate(plans)]
    with ThreadPoolExecutor(max_workers=12) as ex:
        results = list(ex.map(run_trial, jobs))
    winners = {}
    for idx, plan, out, err in results:
        focus = foci[idx]
        case = {'plan': plan, 'focus': focus}
        if out is None:
            if err and err.startswith('rc=') and 'panicked' in err:
                run.violation('race-process-died', 'the process died during the race: %s' % err, case)
            else:
                run.inconc('race trial failed: %s' % err)
            continue
        judge(run, case, out, focus, winners, 'native')
    if (not run.quick() or os.environ.get('VERIF_SANITIZERS') == '1') and replay_case is None:
        sanitizer_stages(run, rng, winners)
    run.cov['winning_thread_histogram'] = winners


def replay(run, rc):
    check(run, replay_case=rc['case'])
