"""C16 serde and generic-value paths produce and accept the same bytes."""
from . import corpus_common as CC

LEVEL = 'exploration'
PACKAGE = 'avmon-corpus'


def check(run, replay_case=None):
    n = 60 if run.quick() else 1500
    run.rule = ('hand-written corpus of Rust types covering the serde data model (integers of all widths incl. fixed-backed u64/i128/u128, floats, char, str, bytes, option, unit, '
                'unit/newtype/tuple/struct variants in every documented enum mapping, seq, arrays, string-keyed maps, structs with skipped / defaulted / flattened / renamed fields, '
                'transparent, recursion) x seeded boundary-biased values x target block size in {none,1,16,4096}; per value: write_ser count, read_deser equality, generic decoder '
                'acceptance + validation, and for the coinciding class to_value->resolve->encode equality and from_value recovery; distinct = type; non-trivial = every type')
    run.min_evaluations = 1000
    run.min_distinct = 20
    run.assumptions = ['schemas are derived where the derive supports the shape', 'a sample of emitted bytes per type also goes to the strict reference decoder']
    types = CC.run_corpus(run, 'c16', n)
    CC.report(run, types, 'C16')


def replay(run, rc):
    check(run)
