"""C14 a truncated or marker-corrupted file yields only a true prefix, then an error (fault enumeration)."""
import json
import random

from ..gen import value as gvalue
from ..ref import names, avrobin, ocf

LEVEL = 'fault_enumeration'

SCHEMAS = [
    ('null', 'zero-width'),
    ('long', 'fixed-ish'),
    ('string', 'variable'),
    ({'type': 'record', 'name': 'R', 'fields': [{'name': 'a', 'type': 'int'}, {'name': 'b', 'type': ['null', 'string']}, {'name': 'c', 'type': {'type': 'array', 'items': 'long'}}]}, 'variable'),
    ({'type': 'record', 'name': 'E', 'fields': []}, 'zero-width'),
    ({'type': 'map', 'values': 'bytes'}, 'variable'),
    ({'type': 'enum', 'name': 'S', 'symbols': ['A', 'B', 'C']}, 'fixed-ish'),
]
CODECS = ['null', 'deflate', 'snappy', 'bzip2', 'xz', 'zstandard']


def make_files(run, n):
    files = []
    for i in range(n):
        rng = random.Random('%s/c14/%d' % (run.seed, i))
        j, width = SCHEMAS[i % len(SCHEMAS)]
        node, env = names.parse(j)
        vg = gvalue.ValueGen(rng, env, boundary_bias=0.2, max_depth=3, max_len=2)
        nblocks = rng.randint(3, 6)
        # block counts needing 1 and 2 varint bytes (>= 64 items -> two bytes)
        counts = [rng.choice([1, 2, 5, 63, 64, 70] if run.quick() else [1, 2, 5, 63, 64, 70, 130]) for _ in range(nblocks)]
        if i % 3 == 0:
            counts[rng.randrange(nblocks)] = rng.choice([64, 100])
        blocks = [[vg.gen(node) for _ in range(c)] for c in counts]
        files.append({'fid': 'k%d' % i, 'schema': j, 'width': width, 'codec': CODECS[(i // len(SCHEMAS)) % len(CODECS)] if i >= len(SCHEMAS) else 'null',
                      'blocks': blocks, 'writer': 'library' if i % 2 == 0 else 'reference', 'deser': i % 4 == 1 or i % 4 == 2,
                      'sync': '%032x' % rng.getrandbits(128)})
    return files


def check(run, replay_case=None):
    n = 20 if run.quick() else 360
    xors = [1, 128, 255] if run.quick() else None
    run.rule = ('files with 3-6 blocks for every codec, block counts needing 1 and 2 varint bytes, zero-width and variable-width items, written by the '
                'library and by the reference writer, read through the Value iterator and through into_deser_iter; EVERY byte offset is cut; every byte of '
                'every block marker, of the header marker and of the magic is XOR-ed with %s; block offsets come from the independent Python walker; '
                'distinct = (file, damage location class); non-trivial = damaged copy differs from the intact file' % ('{0x01,0x80,0xff}' if xors else 'all 255 values'))
    run.min_evaluations = 1000
    run.min_distinct = 20
    run.exhaustive = True
    run.assumptions = ['block index from avmon/ref/ocf.py (independent of the library)', 'zstandard reference files are produced through libzstd one-shot compression']
    files = [replay_case] if replay_case is not None else make_files(run, n)
    # phase A: produce the files
    bA = []
    for f in files:
        node, env = names.parse(f['schema'])
        f['_ne'] = (node, env)
        fid = f['fid']
        ops = [{'id': '%s/p' % fid, 'op': 'parse_schema', 'sid': fid, 'text': json.dumps(f['schema'])}]
        if f['writer'] == 'library':
            steps = []
            for blk in f['blocks']:
                steps += [{'o': 'append_value_ref', 'v': v} for v in blk] + [{'o': 'flush'}]
            steps.append({'o': 'into_inner'})
            ops.append({'id': '%s/w' % fid, 'op': 'writer_history', 'sid': fid, 'codec': None if f['codec'] == 'null' else {'name': f['codec']},
                        'marker': f['sync'], 'block_size': 1 << 30, 'steps': steps, 'full_state': False})
        elif f['codec'] == 'zstandard':
            for bi, blk in enumerate(f['blocks']):
                data = b''.join(avrobin.encode(node, env, v) for v in blk)
                ops.append({'id': '%s/z%d' % (fid, bi), 'op': 'ref_zstd_compress', 'bytes': data.hex(), 'level': 3})
        bA.append(ops)
    evA = run.exec_cases(bA)
    bB = []
    for f in files:
        fid = f['fid']
        node, env = f['_ne']
        if f['writer'] == 'library':
            we = evA.get('%s/w' % fid)
            if we is None or 'ok' not in we:
                run.inconc('library writer failed for a C14 file: %s' % json.dumps(we)[:200])
                continue
            data = bytes.fromhex(we['ok']['bytes'])
        else:
            try:
                zi = iter([bytes.fromhex(evA['%s/z%d' % (fid, bi)]['ok']['bytes']) for bi in range(len(f['blocks']))]) if f['codec'] == 'zstandard' else None
                data = ocf.write(json.dumps(f['schema']), node, env, f['blocks'], codec=f['codec'], sync=bytes.fromhex(f['sync']),
                                 rng=random.Random(fid), zstd=(lambda d: next(zi)) if zi else None)
            except (KeyError, StopIteration):
                continue
        try:
            p = ocf.parse(data)
        except ocf.OcfError as e:
            run.inconc('reference walker cannot index the file: %s' % e)
            continue
        if [b['count'] for b in p['blocks']] != [len(b) for b in f['blocks']]:
            run.inconc('file does not have the intended block structure')
            continue
        f['_data'] = data
        f['_index'] = p
        op = {'id': '%s/scan' % fid, 'op': 'damage_scan', 'bytes': data.hex(), 'header_end': p['header_end'], 'deser': f['deser'],
              'blocks': [[b['start'], b['count_end'], b['size_end'], b['payload_end'], b['end'], b['count']] for b in p['blocks']]}
        if xors:
            op['xors'] = xors
        bB.append([op])
    evB = run.exec_cases(bB, cpu_limit_s=3000)
    tot_cuts = tot_alt = 0
    for f in files:
        if '_data' not in f:
            continue
        fid = f['fid']
        e = evB.get('%s/scan' % fid)
        case = {k: v for k, v in f.items() if not k.startswith('_')}
        case['file_hex'] = f['_data'].hex()
        if e is None:
            continue
        if 'ok' not in e:
            run.violation('scan-%s' % ('panic site=' + e['panic']['site'] if 'panic' in e else 'failed'), 'the damage scan itself failed in library code', case, observed=e)
            continue
        r = e['ok']
        if 'intact_unreadable' in r:
            run.violation('intact-file-unreadable writer=%s codec=%s' % (f['writer'], f['codec']), 'the intact file is not read back completely', case, observed=r)
            continue
        tot_cuts += r['cuts']
        tot_alt += r['alterations']
        for loc, k in r['by_location'].items():
            run.hist('cuts_by_location', loc, k)
            run.distinct.add((fid, loc).__repr__().encode())
        run.evaluations += r['cuts'] + r['alterations']
        run.hist('files_by_codec', f['codec'])
        run.hist('files_by_iterator', 'deser' if f['deser'] else 'value')
        run.sample({'schema': f['schema'], 'codec': f['codec'], 'writer': f['writer'], 'iterator': 'deser' if f['deser'] else 'value', 'block_counts': [len(b) for b in f['blocks']],
                    'file_len': len(f['_data']), 'cuts': r['cuts'], 'marker_and_magic_alterations': r['alterations']})
        for v in r['violations']:
            run.violation('%s iterator=%s' % (v['sig'], 'deser' if f['deser'] else 'value'), '%s (%d occurrences in this file); first: %s' % (v['sig'], v['count'], json.dumps(v['first'])[:300]),
                          case, observed=v)
    run.cov['cut_offsets_enumerated'] = tot_cuts
    run.cov['marker_and_magic_alterations_enumerated'] = tot_alt


def replay(run, rc):
    c = rc['case']
    c.pop('file_hex', None)
    check(run, replay_case=c)
