"""C12 Parsing Canonical Form and fingerprints follow the specification."""
import hashlib
import json
import random

from . import common
from ..gen import schema as gschema
from ..gen import edits
from ..ref import names, pcf, crc64

LEVEL = 'exploration'


def schema_texts(run, n_random, opts=None):
    out = []
    for j, _vals in common.boundary_cases():
        out.append((j, 'boundary'))
    for j in common.name_resolution_cases():
        out.append((j, 'names'))
    # integer attributes at every width boundary the JSON number / usize conversions could mishandle (sizes are never instantiated here)
    for n, sz in enumerate((0, 1, 2 ** 31 - 1, 2 ** 31, 2 ** 32 - 1, 2 ** 32, 2 ** 53, 2 ** 53 + 1, 2 ** 63 - 1, 2 ** 63, 2 ** 64 - 1)):
        out.append(({'type': 'fixed', 'name': 'Big%d' % n, 'size': sz}, 'int-boundary'))
        out.append(({'type': 'record', 'name': 'RB%d' % n, 'fields': [{'name': 'f', 'type': {'type': 'fixed', 'name': 'Big%d' % n, 'namespace': 'n.s', 'size': sz}}]}, 'int-boundary'))
    o = opts or gschema.Opts(decorations=True, defaults=True, attr_on_logical=True)
    for i in range(n_random):
        rng = random.Random('%s/c12/%d' % (run.seed, i))
        o.max_depth = rng.choice([1, 2, 3, 4]) if run.quick() else rng.choice([2, 3, 4, 5, 6])
        j = gschema.SchemaGen(rng, o).gen()
        out.append((j, 'random'))
    return out


def attr_sigs(lib, ref):
    """every way the library's canonical form differs from the reference's (input independent
    signatures); all of them are reported, so that a known difference cannot hide another one"""
    try:
        a = json.loads(lib)
        b = json.loads(ref)
    except ValueError:
        return ['not-json']
    out = []
    all_diffs(a, b, 'top', out)
    return sorted(set(out)) or ['text-differs-same-json']


def all_diffs(a, b, ctx, out):
    if type(a) != type(b):
        for x, y in ((a, b), (b, a)):
            if isinstance(x, dict) and list(x.keys()) == ['type'] and x['type'] == y:
                out.append('primitive-with-stripped-attributes-not-in-simple-form')
                return
        out.append('kind %s vs %s at %s' % (type(a).__name__, type(b).__name__, ctx))
        return
    if isinstance(a, dict):
        ka, kb = list(a.keys()), list(b.keys())
        t = b.get('type', a.get('type'))
        t = t if isinstance(t, str) else 'complex'
        if t not in ('record', 'enum', 'fixed', 'array', 'map', 'complex') and 'name' in b:
            t = 'field'
        for k in ka:
            if k not in b:
                out.append('extra-attr=%s on=%s' % (k, t))
        for k in kb:
            if k not in a:
                out.append('missing-attr=%s on=%s' % (k, t))
        if [k for k in ka if k in b] != [k for k in kb if k in a]:
            out.append('attr-order on=%s' % t)
        for k in ka:
            if k in b:
                all_diffs(a[k], b[k], k, out)
        return
    if isinstance(a, list):
        if len(a) != len(b):
            out.append('list-length at %s' % ctx)
        for x, y in zip(a, b):
            all_diffs(x, y, ctx, out)
        return
    if a != b:
        out.append('value-differs at %s' % ctx)


def check(run, replay_case=None):
    n_random = 1200 if run.quick() else 30000
    n_edits = 7 if run.quick() else 12
    run.rule = ('boundary schemas + seeded random decorated schemas (docs, aliases, defaults, order, custom attributes, namespaces in every '
                'spelling, logical types with extra attributes); per schema: reference PCF comparison, idempotence, fingerprints vs CRC-64-AVRO/'
                'MD5/SHA-256 of the PCF bytes, and %d irrelevant edits; distinct = schema shape x check kind' % n_edits)
    run.min_evaluations = 300
    run.min_distinct = 50
    run.assumptions = ['reference PCF (avmon/ref/pcf.py) and CRC-64-AVRO (avmon/ref/crc64.py) written from the specification; CRC checked against the published vectors for "int"/"string"',
                       'MD5/SHA-256 from Python hashlib']
    if replay_case is not None:
        cases = [replay_case]
    else:
        cases = []
        for n, (j, origin) in enumerate(schema_texts(run, n_random)):
            rng = random.Random('%s/c12e/%d' % (run.seed, n))
            cases.append({'cid': 'c%d' % n, 'schema': j, 'origin': origin, 'edits': edits.irrelevant_edits(j, rng, n_edits)})
    WANT = ['pcf', 'fp_rabin', 'fp_md5', 'fp_sha256']
    batches = []
    for c in cases:
        cid = c['cid']
        ops = [{'id': '%s/p' % cid, 'op': 'parse_schema', 'sid': cid, 'text': json.dumps(c['schema'])},
               {'id': '%s/i' % cid, 'op': 'schema_info', 'sid': cid, 'want': WANT}]
        for k, (name, txt) in enumerate(c['edits']):
            ops.append({'id': '%s/ep%d' % (cid, k), 'op': 'parse_schema', 'sid': cid + 'e', 'text': txt})
            ops.append({'id': '%s/ei%d' % (cid, k), 'op': 'schema_info', 'sid': cid + 'e', 'want': ['pcf']})
        batches.append(ops)
    # fingerprint function on arbitrary byte strings
    rng = random.Random('%s/c12bytes' % run.seed)
    blobs = [b'', b'\x00', b'"int"'] + [bytes([i]) for i in range(256)] + [bytes(rng.getrandbits(8) for _ in range(n)) for n in (2, 7, 8, 9, 63, 64, 65, 1000, 65536)]
    if not run.quick():
        blobs.append(bytes(rng.getrandbits(8) for _ in range(1 << 20)))
    bops = []
    for i, b in enumerate(blobs):
        op = {'id': 'blob%d' % i, 'op': 'rabin', 'bytes': b.hex()}
        if i % 3 == 1:
            op['chunk'] = 1 + (i % 7)
        bops.append(op)
    batches.append(bops)
    ev = run.exec_cases(batches)
    ev_again = run.exec_cases(batches)          # determinism across processes
    for i, b in enumerate(blobs):
        e = ev.get('blob%d' % i)
        if e is None:
            continue
        run.eval(('blob', min(len(b), 70)), True)
        run.count('rabin_byte_strings')
        if 'ok' not in e:
            run.violation('rabin-failed', 'Rabin digest failed on a byte string', {'bytes': b.hex()[:200]}, observed=e)
        elif e['ok']['fp'] != crc64.fingerprint_le(b).hex():
            run.violation('rabin-differs len=%s' % ('0' if not b else '1' if len(b) == 1 else 'n'), 'Rabin digest != CRC-64-AVRO (little endian)',
                          {'bytes': b.hex()[:200], 'len': len(b)}, observed=e['ok']['fp'], expected=crc64.fingerprint_le(b).hex())
    phase2 = []
    for c in cases:
        cid = c['cid']
        pe, ie = ev.get('%s/p' % cid), ev.get('%s/i' % cid)
        if pe is None or ie is None:
            continue
        if 'ok' not in pe:
            run.hist('schemas_rejected_by_parser(C11 territory)', (pe.get('err') or {'kind': 'panic'})['kind'])
            continue
        node, env = names.parse(c['schema'])
        sshape = common.schema_shape(node, env)
        info = ie.get('ok', {})
        if 'ok' not in info.get('pcf', {}):
            run.violation('pcf-%s' % ('panic site=' + info['pcf']['panic']['site'] if 'panic' in info.get('pcf', {}) else 'error'),
                          'canonical_form failed on an accepted schema', strip(c), observed=info.get('pcf'))
            continue
        lib = info['pcf']['ok']
        ref = pcf.pcf(c['schema'])
        c['lib_pcf'] = lib
        run.eval((sshape, 'pcf'), True)
        run.sample({'schema': c['schema'], 'library_pcf': lib, 'reference_pcf': ref})
        if lib != ref:
            for sg in attr_sigs(lib, ref):
                run.violation('pcf-differs %s' % sg, 'canonical form differs from the specification\'s normalisation',
                              strip(c), observed=lib, expected=ref)
        # fingerprints are judged against the library's own canonical form bytes (statement: digest of the canonical form)
        pb = lib.encode('utf-8')
        for key, exp in (('fp_rabin', crc64.fingerprint_le(pb).hex()), ('fp_md5', hashlib.md5(pb).hexdigest()), ('fp_sha256', hashlib.sha256(pb).hexdigest())):
            got = info.get(key, {})
            run.eval((sshape, key), True)
            if got.get('ok') != exp:
                run.violation('%s-differs' % key, '%s is not the digest of the canonical form bytes' % key, strip(c), observed=got, expected=exp)
        # determinism
        ie2 = ev_again.get('%s/i' % cid)
        if ie2 is not None and ie2.get('ok') != ie.get('ok'):
            run.violation('nondeterministic-across-processes', 'canonical form / fingerprint differ between two processes', strip(c), observed=[ie.get('ok'), ie2.get('ok')])
        # irrelevant edits
        for k, (name, txt) in enumerate(c['edits']):
            pe2, ie2 = ev.get('%s/ep%d' % (cid, k)), ev.get('%s/ei%d' % (cid, k))
            if pe2 is None or ie2 is None:
                continue
            run.eval((sshape, 'edit', name), True)
            run.hist('irrelevant_edits', name)
            if 'ok' not in pe2:
                run.violation('edit-rejected edit=%s kind=%s' % (name, (pe2.get('err') or {'kind': 'panic'})['kind']),
                              'an irrelevant edit of an accepted schema is rejected', dict(strip(c), edit=name, edited=txt), observed=pe2)
                continue
            got = ie2.get('ok', {}).get('pcf', {}).get('ok')
            if got != lib:
                for sg in attr_sigs(got or 'null', lib):
                    run.violation('edit-changes-pcf edit=%s %s' % (name, sg), 'an edit the specification calls irrelevant changes the canonical form',
                                  dict(strip(c), edit=name, edited=txt), observed=got, expected=lib)
        phase2.append([{'id': '%s/pp' % cid, 'op': 'parse_schema', 'sid': cid, 'text': lib},
                       {'id': '%s/pi' % cid, 'op': 'schema_info', 'sid': cid, 'want': ['pcf']}])
    ev2 = run.exec_cases(phase2)
    for c in cases:
        cid = c['cid']
        if 'lib_pcf' not in c:
            continue
        pe, ie = ev2.get('%s/pp' % cid), ev2.get('%s/pi' % cid)
        if pe is None:
            continue
        run.count('idempotence_checks')
        if 'ok' not in pe:
            run.violation('pcf-does-not-reparse kind=%s' % (pe.get('err') or {'kind': 'panic'})['kind'], 'the canonical form is rejected by the parser',
                          strip(c), observed={'pcf': c['lib_pcf'], 'event': pe})
        elif ie.get('ok', {}).get('pcf', {}).get('ok') != c['lib_pcf']:
            for sg in attr_sigs(ie.get('ok', {}).get('pcf', {}).get('ok') or 'null', c['lib_pcf']):
                run.violation('pcf-not-idempotent %s' % sg, 'canonical_form(parse(pcf)) != pcf', strip(c), observed=ie.get('ok'), expected=c['lib_pcf'])


def strip(c):
    return {k: v for k, v in c.items() if k not in ('lib_pcf',)}


def replay(run, rc):
    c = rc['case']
    c.pop('edit', None)
    c.pop('edited', None)
    c['edits'] = [tuple(x) for x in c['edits']]
    check(run, replay_case=c)
