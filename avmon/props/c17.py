"""C17 derived schemas are valid and accept every value of their type."""
from . import corpus_common as CC

LEVEL = 'exploration'
PACKAGE = 'avmon-corpus'


def check(run, replay_case=None):
    n = 40 if run.quick() else 600
    run.rule = ('generated corpus of derived types (checked in, fixed generator seed): field types {scalars, Option/Vec/HashMap/array nestings, nested derived structs and enums, '
                'recursion through Option<Box<_>>/Vec<_>} x attribute combinations {rename, rename_all (8 cases), rename_all_fields, namespace, alias, doc, skip, skip_serializing_if + '
                'default, flatten, transparent, raw identifiers, enum repr in {enum, union_of_records, bare_union, record_tag_content, record_internally_tagged}} x seeded values; '
                'per type: derived schema well formed (reference), JSON round trip, same on every call, every value serializes / deserializes back equal, container round trip; '
                'distinct = type; non-trivial = every type')
    run.min_evaluations = 1000
    run.min_distinct = 50
    run.assumptions = ['only attribute combinations the derive documents as supported are generated; every corpus type was first proven on the unchanged tree (generator bugs are removed, see DESIGN.md)']
    if not run.quick():
        # second, larger corpus (300 further generated types, prefix H) compiled only for the thorough tier
        from .. import driver
        driver.build('avmon-corpus', ['--features', 'seeded'])
        run.cov['corpora'] = ['hand', 'derived_fixed', 'derived_seeded']
    types = CC.run_corpus(run, 'c17', n)
    CC.report(run, types, 'C17')


def replay(run, rc):
    check(run)
