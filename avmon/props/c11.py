"""C11 the schema parser is total and accepts exactly well-formed schemas."""
import json
import re
import random

from . import common
from .c12 import schema_texts
from ..gen import schema as gschema
from ..gen import mutate_schema as M
from ..ref import names, wellformed

LEVEL = 'exploration'
WANT = ['json', 'dump', 'pcf', 'fp_rabin', 'fp_md5', 'fp_sha256', 'debug', 'display', 'resolved', 'indep_pcf', 'self_eq', 'custom_attributes']
# rejection reasons of the reference parser on which the specification leaves no room
STRICT_RULES = {'duplicate-definition', 'unresolved-reference', 'name-grammar', 'namespace-grammar', 'field-name-grammar', 'duplicate-field',
                'duplicate-symbol', 'symbols-malformed', 'field-not-object', 'field-type-missing', 'type-missing', 'name-missing',
                'fixed-size-malformed', 'enum-default-not-symbol', 'nested-union', 'duplicate-union-branch', 'fields-not-list'}
CPU_BUDGET_US = 5_000_000


def _rec(t, d):
    return json.dumps({'type': 'record', 'name': 'R', 'fields': [{'name': 'f', 'type': t, 'default': d}]})


# deterministic probes: one per default-conformance rule and per extreme-number rule
TARGETED = [
    _rec({'type': 'fixed', 'name': 'F', 'size': 4}, 'ab'), _rec({'type': 'fixed', 'name': 'F', 'size': 4}, 'abcd'),
    _rec({'type': 'enum', 'name': 'E', 'symbols': ['A', 'B']}, 'Z'), _rec({'type': 'enum', 'name': 'E', 'symbols': ['A', 'B'], 'default': 'A'}, 'Z'),
    _rec('int', 1.5), _rec('int', '1'), _rec('int', 2 ** 31), _rec('long', 2 ** 63), _rec('long', 1.0), _rec('float', 'x'), _rec('bytes', '\u0100'),
    _rec('bytes', '\u00ff\u0000'), _rec('string', 5), _rec(['null', 'int'], 5), _rec(['null', 'int'], 'x'), _rec(['int', 'null'], None),
    _rec({'type': 'record', 'name': 'I', 'fields': [{'name': 'a', 'type': 'int'}]}, {}),
    _rec({'type': 'record', 'name': 'I', 'fields': [{'name': 'a', 'type': 'int', 'default': 1}]}, {}),
    _rec({'type': 'array', 'items': 'int'}, ['x']), _rec({'type': 'map', 'values': 'int'}, {'k': 'x'}), _rec('null', 0), _rec('boolean', 1),
    _rec({'type': 'map', 'values': {'type': 'fixed', 'name': 'F', 'size': 16}}, {'k': 'short'}), _rec('double', 1),
    '{"type":"fixed","name":"F","size":18446744073709551615}', '{"type":"fixed","name":"F","size":9223372036854775808}',
    '{"type":"fixed","name":"F","size":9223372036854775807}', '{"type":"fixed","name":"F","size":-1}', '{"type":"fixed","name":"F","size":1.5}',
    '{"type":"fixed","name":"F","size":1e400}', '{"type":"fixed","name":"F","size":0}',
    '{"type":"bytes","logicalType":"decimal","precision":18446744073709551615,"scale":18446744073709551615}',
    '{"type":"bytes","logicalType":"decimal","precision":0}', '{"type":"bytes","logicalType":"decimal","precision":-1}',
    '{"type":"fixed","name":"D","size":1,"logicalType":"decimal","precision":100}',
    '{"type":"fixed","name":"D","size":18446744073709551615,"logicalType":"decimal","precision":3}',
    '{"type":"record","name":"R","fields":[1]}', '{"type":"record","name":"R","fields":[{"name":"a","type":"int"},{"name":"b","type":"int","aliases":["a"]},{"name":"a","type":"long"}]}',
    '{"type":"record","name":"R","fields":[{"name":"a","type":"int"},{"name":"a","type":"int"}]}', '{"type":"record","name":"R","fields":[{"name":"f","type":[],"default":1}]}',
    '{"type":"record","name":"R","fields":[{"name":"f","type":{"type":[]},"default":null}]}', '{"type":"record","name":"R","fields":[{"name":"a","type":"int"},null]}',
    '[{"type":"fixed","name":"X","size":1},{"type":"fixed","name":"X","size":2}]',
    '{"type":"record","name":"R","fields":[{"name":"a","type":{"type":"enum","name":"X","symbols":["A"]}},{"name":"b","type":{"type":"enum","name":"X","symbols":["B"]}}]}',
]


def check(run, replay_case=None):
    n_valid = 600 if run.quick() else 20000
    n_mut = 9000 if run.quick() else 300000
    n_arb = 3000 if run.quick() else 100000
    run.rule = ('arbitrary strings / arbitrary JSON, mutations of valid generated schemas (dropped/retyped/duplicated keys, every JSON kind at '
                'random positions, extreme numbers as raw text, illegal names, duplicate names/fields/symbols, nested/duplicate unions, dangling '
                'references, wrong-typed defaults) and all generated well-formed schemas; through parse_str / parse_reader / parse(Value); '
                'distinct = (origin, mutation kind, outcome kind); non-trivial = text is not one of the fixed literals')
    run.min_evaluations = 2000
    run.min_distinct = 40
    run.assumptions = ['reference well-formedness rules avmon/ref/wellformed.py (on the library\'s own structure) and avmon/ref/names.py (on the text)',
                       'union default conformance uses the weaker published reading (some branch)']
    if replay_case is not None:
        cases = [replay_case]
    else:
        cases = []
        valid = schema_texts(run, n_valid, gschema.Opts(decorations=True, defaults=True, attr_on_logical=True))
        for n, (j, origin) in enumerate(valid):
            cases.append({'cid': 'v%d' % n, 'text': json.dumps(j), 'origin': 'generated-valid', 'mut': 'none'})
        for n, t in enumerate(TARGETED):
            cases.append({'cid': 't%d' % n, 'text': t, 'origin': 'targeted', 'mut': 'targeted'})
        rng = random.Random('%s/c11' % run.seed)
        for n in range(n_mut):
            j, _ = valid[rng.randrange(len(valid))]
            name, text = M.mutate(j, rng)
            cases.append({'cid': 'm%d' % n, 'text': text, 'origin': 'mutation', 'mut': name.split(':')[0].split('=')[0]})
        for n in range(n_arb):
            cases.append({'cid': 'a%d' % n, 'text': M.arbitrary_text(rng), 'origin': 'arbitrary', 'mut': 'arbitrary'})
    batches = []
    for i, c in enumerate(cases):
        cid = c['cid']
        entry = ('parse_schema', 'parse_reader', 'parse_json')[i % 3] if c['origin'] != 'arbitrary' or i % 3 != 2 else 'parse_schema'
        c['entry'] = entry
        batches.append([{'id': '%s/p' % cid, 'op': entry, 'sid': cid, 'text': c['text']},
                        {'id': '%s/i' % cid, 'op': 'schema_info', 'sid': cid, 'want': WANT}])
    ev = run.exec_cases(batches, crash_is_violation=True, cpu_limit_s=900)
    for info in getattr(run, 'crashed', []):
        opid, opname, rc, err = info
        c = next((x for x in cases if opid and opid.startswith(x['cid'] + '/')), None)
        run.violation('process-died op=%s rc=%s' % (opname, rc), 'the process died (abort / stack overflow / CPU limit) while parsing or using a schema: %s' % err[-200:], c)
    n_acc = 0
    for c in cases:
        cid = c['cid']
        pe = ev.get('%s/p' % cid)
        if pe is None:
            continue
        outcome = 'ok' if 'ok' in pe else ('panic' if 'panic' in pe else (pe.get('err') or {}).get('kind', 'harness'))
        if 'harness_error' in pe:
            run.count('texts_not_json_for_parse(Value)')
            continue
        run.eval((c['origin'], c['mut'], outcome, c['entry']), True)
        run.hist('outcomes', 'accepted' if outcome == 'ok' else 'rejected' if outcome != 'panic' else 'panic')
        run.hist('mutations', c['mut'])
        cpu = pe.get('alloc', {}).get('cpu_us', 0)
        run.note_max('max_parse_cpu_us', cpu)
        if cpu > CPU_BUDGET_US:
            run.violation('cpu-budget op=parse', 'parsing took %d us of CPU for %d bytes of text' % (cpu, len(c['text'])), c)
        if 'panic' in pe:
            run.violation('parse-panic site=%s' % pe['panic']['site'], 'parser panicked: %s' % pe['panic']['msg'][:200], c, observed=pe['panic'])
            continue
        if 'ok' not in pe:
            if c['origin'] == 'generated-valid':
                kind = outcome
                msg = pe['err']['msg']
                if "`default`'s value type" in msg:
                    # which well-formed default was refused: one holding code points 128..255 for bytes/fixed (materialised as UTF-8 by the
                    # library, so the length no longer fits), or something else
                    if re.search(r'"logicalType": *"uuid"', c['text']):
                        kind = 'default-refused:union-with-uuid-branch'
                    elif re.search('[\u0080-\u00ff]|\\\\u00[89a-fA-F][0-9a-fA-F]', c['text']):
                        kind = 'default-refused:bytes-or-fixed-with-code-points-128-255'
                    else:
                        kind = 'default-refused:other'
                run.violation('wellformed-rejected kind=%s' % kind, 'a generated well-formed schema is rejected: %s' % msg[:200], c, observed=pe)
            continue
        n_acc += 1
        run.sample({'text': c['text'][:400], 'origin': c['origin'], 'mutation': c['mut'], 'outcome': 'accepted'})
        ie = ev.get('%s/i' % cid)
        if ie is None or 'ok' not in ie:
            if ie is not None and 'panic' in ie:
                run.violation('followup-panic site=%s' % ie['panic']['site'], 'an operation on an accepted schema panicked', c, observed=ie)
            continue
        info = ie['ok']
        if ie.get('alloc', {}).get('cpu_us', 0) > CPU_BUDGET_US:
            run.violation('cpu-budget op=followup', 'operations on an accepted schema took %d us of CPU' % ie['alloc']['cpu_us'], c)
        for w in WANT:
            r = info.get(w, {})
            if 'panic' in r:
                run.violation('followup-panic op=%s site=%s' % (w, r['panic']['site']), '%s panicked on an accepted schema: %s' % (w, r['panic']['msg'][:200]), c, observed=r['panic'])
            elif 'err' in r and w in ('json', 'resolved'):
                kind = r['err']['kind']
                if w == 'resolved' and kind == 'Unresolved-schema-reference':
                    try:
                        from .c10 import null_ns_nested
                        if null_ns_nested(json.loads(c['text'])):
                            kind += ' cause=null-namespace-lost'
                    except ValueError:
                        pass
                run.violation('followup-error op=%s kind=%s' % (w, kind), '%s failed on an accepted schema' % w, c, observed=r)
        if info.get('self_eq', {}).get('ok') is False:
            run.violation('not-equal-to-itself', 'an accepted schema compares unequal to itself', c)
        d = info.get('dump', {}).get('ok')
        flagged = set()
        if d is not None:
            for rule in wellformed.check(d):
                flagged.add(rule.split(' ')[0])
                run.violation('accepted-illformed rule=%s' % rule, 'the parser accepted a schema that violates: %s' % rule, c, observed=d)
        # the text itself, judged by the reference parser (strict rules only)
        try:
            tj = json.loads(c['text'])
        except ValueError:
            tj = None
        if tj is not None:
            try:
                names.parse(tj)
            except names.SchemaError as e:
                if e.rule in STRICT_RULES and e.rule not in flagged:
                    run.violation('accepted-but-text-illformed rule=%s' % e.rule, 'the parser accepted a text the specification does not allow (%s); the offending member was silently ignored or rewritten' % e, c,
                                  observed=d)
            except (RecursionError, TypeError, AttributeError, KeyError, ValueError):
                run.count('reference_could_not_judge')
    run.cov['accepted'] = n_acc


def replay(run, rc):
    check(run, replay_case=rc['case'])
