"""C02 binary encoding follows the specification: library bytes are decoded by the independent
reference decoder (strict), and every spec-legal layout produced by the reference encoder is
decoded by the library to the same value."""
import json
import random

from . import common
from .c01 import diff_kind, kind_at, _ne
from ..gen import value as gvalue
from ..gen.plan import plan_of
from ..ref import avrobin

LEVEL = 'exploration'


def layouts(rng, k):
    """k alternative legal block layouts (callables for avrobin.encode)"""
    outs = []

    def one_per_block(kind, n):
        return [(1, False)] * n

    def all_negative(kind, n):
        return [(n, True)] if n else []

    def one_per_block_neg(kind, n):
        return [(1, True)] * n
    outs += [('one-per-block', one_per_block), ('negative-single', all_negative), ('negative-one-per-block', one_per_block_neg)]
    for i in range(max(0, k - 3)):
        seed = rng.getrandbits(32)

        def rnd(kind, n, seed=seed):
            r = random.Random(seed * 1000003 + n)
            out = []
            left = n
            while left > 0:
                c = r.randint(1, left)
                out.append((c, r.random() < 0.5))
                left -= c
            return out
        outs.append(('random-%d' % i, rnd))
    return outs[:k]


def has_container(v):
    if isinstance(v, dict):
        if 'a' in v or 'm' in v:
            return True
        return any(has_container(x) for x in v.values())
    if isinstance(v, list):
        return any(has_container(x) for x in v)
    return False


def permute_maps(v, rng):
    if isinstance(v, dict):
        if 'm' in v:
            items = [[k, permute_maps(x, rng)] for k, x in v['m']]
            rng.shuffle(items)
            return {'m': items}
        return {k: permute_maps(x, rng) for k, x in v.items()}
    if isinstance(v, list):
        return [permute_maps(x, rng) for x in v]
    return v


def check(run, replay_case=None):
    n_random = 1500 if run.quick() else 40000
    nlay = 4 if run.quick() else 8
    run.rule = ('same (schema, value) workload as C01; forward: library bytes -> strict reference decoder; reverse: reference encoder '
                'with alternative legal layouts (blocks split, negative counts with byte sizes, permuted map entries) -> library decoder; '
                'serde path at target_block_size in {none,1,8,64} -> reference decoder; distinct = (schema shape, value shape, direction/layout)')
    run.min_evaluations = 500
    run.min_distinct = 100
    run.assumptions = ['reference codec avmon/ref/avrobin.py written from the specification, self-checked against the spec byte vectors (tools/selfcheck.py)']
    if replay_case is not None:
        cases = [replay_case]
    else:
        cases = []
        for n, (j, node, env, vals, origin) in enumerate(common.all_cases(run.seed, n_random)):
            cases.append({'cid': 'c%d' % n, 'schema': j, 'values': vals, 'origin': origin})
    batches = []
    for c in cases:
        cid = c['cid']
        node, env = _ne(c)
        rng = random.Random('%s/%s/lay' % (run.seed, cid))
        ops = [{'id': '%s/p' % cid, 'op': 'parse_schema', 'sid': cid, 'text': json.dumps(c['schema'])}]
        c['variants'] = []
        for i, v in enumerate(c['values']):
            ops.append({'id': '%s/w%d' % (cid, i), 'op': 'datum_write', 'sid': cid, 'value': v})
            # reverse direction: canonical + alternative layouts
            canon = avrobin.encode(node, env, v)
            vs = [('canonical', canon)]
            if has_container(v):
                for name, lay in layouts(rng, nlay):
                    vp = permute_maps(v, rng)
                    b = avrobin.encode(node, env, vp, layout=lay)
                    if b != canon:
                        vs.append((name, b))
            c['variants'].append(vs)
            for jx, (name, b) in enumerate(vs):
                ops.append({'id': '%s/r%d.%d' % (cid, i, jx), 'op': 'datum_read', 'sid': cid, 'bytes': b.hex() + 'aa'})
            # serde path
            if i < 2:
                try:
                    pl = plan_of(node, env, v)
                except Exception:
                    pl = None
                if pl is not None:
                    for tbs in (None, 1, 8, 64):
                        op = {'id': '%s/s%d.%s' % (cid, i, tbs), 'op': 'datum_write_ser', 'sid': cid, 'plan': pl}
                        if tbs is not None:
                            op['target_block_size'] = tbs
                        ops.append(op)
        batches.append(ops)
    ev = run.exec_cases(batches)
    for c in cases:
        cid = c['cid']
        node, env = _ne(c)
        pe = ev.get('%s/p' % cid)
        if pe is None or 'ok' not in pe:
            if pe is not None:
                run.violation('generated-schema-rejected kind=%s' % (pe.get('err', {}).get('kind') or 'panic'),
                              'parser rejected/panicked on a generated well-formed schema', strip(c), observed=pe)
            continue
        sshape = common.schema_shape(node, env)
        for i, v in enumerate(c['values']):
            vshape = gvalue.shape(v)
            # ---- forward
            w = ev.get('%s/w%d' % (cid, i))
            if w is not None and 'ok' in w and 'bytes' in w['ok']:
                run.eval((sshape, vshape, 'fwd'), gvalue.nontrivial(v))
                run.count('forward_decodes')
                b = bytes.fromhex(w['ok']['bytes'])
                try:
                    rv = avrobin.decode_all(node, env, b)
                    if not avrobin.veq(rv, v):
                        run.violation('forward-value-differs at=%s' % diff_kind(v, rv), 'reference decoder reads library bytes as a different value',
                                      dict(strip(c), value_index=i), observed={'bytes': b.hex(), 'ref_value': rv}, expected=v)
                except avrobin.DecodeError as e:
                    run.violation('forward-ref-rejects schema=%s why=%s' % (kind_at(c), classify(str(e))), 'reference decoder rejects library bytes: %s' % e,
                                  dict(strip(c), value_index=i), observed={'bytes': b.hex()})
                if i == 0:
                    run.sample({'schema': c['schema'], 'value': v, 'library_bytes': b.hex(), 'layouts_fed_back': [n for n, _ in c['variants'][i]]})
            elif w is not None:
                run.violation('forward-write-failed schema=%s' % kind_at(c), 'library failed to write a conforming value', dict(strip(c), value_index=i), observed=w)
            # ---- reverse
            for jx, (name, b) in enumerate(c['variants'][i]):
                e = ev.get('%s/r%d.%d' % (cid, i, jx))
                if e is None:
                    continue
                run.eval((sshape, vshape, 'rev', name.split('-')[0]), gvalue.nontrivial(v))
                run.hist('reverse_layouts', name.rstrip('0123456789').rstrip('-'))
                if 'ok' not in e:
                    run.violation('reverse-%s' % ('panic site=' + e['panic']['site'] if 'panic' in e else 'setup-error'),
                                  'library failed on reference bytes', dict(strip(c), value_index=i, layout=name), observed=e)
                    continue
                it = e['ok']['items'][0]
                if 'err' in it:
                    run.violation('reverse-rejected layout=%s kind=%s schema=%s' % (lname(name), it['err']['kind'], kind_at(c)),
                                  'library rejects a spec-legal encoding produced by the reference',
                                  dict(strip(c), value_index=i, layout=name), observed={'bytes': b.hex(), 'err': it['err']})
                elif not avrobin.veq(it['value'], v):
                    run.violation('reverse-value-differs layout=%s at=%s' % (lname(name), diff_kind(v, it['value'])),
                                  'library decodes a spec-legal reference encoding to a different value',
                                  dict(strip(c), value_index=i, layout=name), observed={'bytes': b.hex(), 'value': it['value']}, expected=v)
                elif it['consumed'] != len(b):
                    run.violation('reverse-consumed-differs layout=%s' % lname(name), 'library consumed %d of %d bytes' % (it['consumed'], len(b)),
                                  dict(strip(c), value_index=i, layout=name), observed={'bytes': b.hex()})
            # ---- serde path
            for tbs in (None, 1, 8, 64):
                e = ev.get('%s/s%d.%s' % (cid, i, tbs))
                if e is None:
                    continue
                if 'ok' not in e or 'bytes' not in e['ok']:
                    # the serde mapping does not cover every schema shape the generic encoder covers
                    run.hist('serde_path_not_applicable', (e.get('ok', {}).get('write_err') or e.get('err') or {'kind': 'panic'}).get('kind', '?'))
                    if 'panic' in e:
                        run.violation('serde-write-panic site=%s' % e['panic']['site'], 'schema-aware serializer panicked', dict(strip(c), value_index=i), observed=e)
                    continue
                run.eval((sshape, vshape, 'serde', tbs), gvalue.nontrivial(v))
                run.hist('serde_block_settings', str(tbs))
                b = bytes.fromhex(e['ok']['bytes'])
                try:
                    rv = avrobin.decode_all(node, env, b)
                    if not avrobin.veq(rv, v):
                        run.violation('serde-value-differs tbs=%s at=%s' % (tbs, diff_kind(v, rv)), 'reference decoder reads serde-path bytes as a different value',
                                      dict(strip(c), value_index=i, target_block_size=tbs), observed={'bytes': b.hex(), 'ref_value': rv}, expected=v)
                    elif e['ok']['ret'] != len(b):
                        run.violation('serde-count-differs tbs=%s' % tbs, 'write_ser returned %d but emitted %d bytes' % (e['ok']['ret'], len(b)),
                                      dict(strip(c), value_index=i, target_block_size=tbs), observed=e['ok'])
                except avrobin.DecodeError as ex:
                    run.violation('serde-ref-rejects tbs=%s why=%s' % (tbs, classify(str(ex))), 'reference decoder rejects serde-path bytes: %s' % ex,
                                  dict(strip(c), value_index=i, target_block_size=tbs), observed={'bytes': b.hex()})


def lname(name):
    return name.rstrip('0123456789').rstrip('-')


def classify(msg):
    for key in ('block byte size', 'uuid text', 'trailing bytes', 'eof', 'varint', 'boolean', 'index out of range', 'utf-8', 'int out of range', 'big-decimal'):
        if key in msg:
            return key.replace(' ', '-')
    return 'other'


def strip(c):
    return {k: v for k, v in c.items() if k not in ('_ne', 'variants')}


def replay(run, rc):
    c = rc['case']
    for k in ('value_index', 'layout', 'target_block_size'):
        c.pop(k, None)
    check(run, replay_case=c)
