"""C20 multi-schema parsing is independent of input order and deterministic."""
import itertools
import json
import random

from ..gen import schemaset as SS
from ..gen import value as gvalue
from ..ref import names, normalize, avrobin

LEVEL = 'exploration'


def top_name(j):
    n = j['name']
    if '.' in n:
        return n
    ns = j.get('namespace')
    return (ns + '.' + n) if ns else n


def check(run, replay_case=None):
    n = 400 if run.quick() else 4000
    reps = 6 if run.quick() else 16
    maxperm = 24 if run.quick() else 120
    run.rule = ('sets of 2-4 (thorough: up to 5) mutually referencing schemas {chains, diamonds, cycles, cross-namespace, nested definitions referenced by other inputs, recursive + '
                'dependency, conflicting duplicates of four kinds, alias/name collision, dangling references, enum/fixed mixes} x ALL permutations (<= %d) x %d repeats in one process '
                '(fresh HashMap seed per parser) across 16 processes; parse_list and parse_str_with_list; ground truth from the reference resolver; distinct = (shape, size, '
                'permutation); non-trivial = set has at least one cross-schema reference' % (maxperm, reps))
    run.min_evaluations = 500
    run.min_distinct = 50
    run.assumptions = ['ground truth (every reference resolves within the set; no full name defined twice) from avmon/ref/names.py']
    if replay_case is not None:
        cases = [replay_case]
    else:
        cases = []
        for i in range(n):
            rng = random.Random('%s/c20/%d' % (run.seed, i))
            k = rng.choice([2, 3, 3, 4] if run.quick() else [2, 3, 4, 5])
            schemas, shape = SS.gen_set(rng, k)
            cases.append({'cid': 'g%d' % i, 'schemas': schemas, 'shape': shape})
    batches = []
    for c in cases:
        cid = c['cid']
        k = len(c['schemas'])
        perms = list(itertools.permutations(range(k)))
        rng = random.Random('%s/c20p/%s' % (run.seed, cid))
        if len(perms) > maxperm:
            perms = [perms[0]] + rng.sample(perms[1:], maxperm - 1)
        c['_perms'] = perms
        texts = [json.dumps(s) for s in c['schemas']]
        for pi, perm in enumerate(perms):
            ops = []
            for r in range(reps):
                op = {'id': '%s/o%d/r%d' % (cid, pi, r), 'op': 'parse_list', 'texts': [texts[i] for i in perm]}
                if r == 0:
                    op['sids'] = ['%s_o%d_%d' % (cid, pi, i) for i in perm]
                ops.append(op)
            # parse_str_with_list: first element as the main schema
            ops.append({'id': '%s/o%d/w' % (cid, pi), 'op': 'parse_str_with_list', 'text': texts[perm[0]], 'texts': [texts[i] for i in perm[1:]]})
            batches.append(ops)
    ev = run.exec_cases(batches)
    b2 = []
    for c in cases:
        cid = c['cid']
        k = len(c['schemas'])
        truth, why = SS.ground_truth(c['schemas'])
        case = {'schemas': c['schemas'], 'shape': c['shape'], 'cid': cid}
        outcomes = {}
        dumps = {}
        for pi, perm in enumerate(c['_perms']):
            for r in list(range(reps)) + ['w']:
                e = ev.get('%s/o%d/%s' % (cid, pi, 'r%d' % r if r != 'w' else 'w'))
                if e is None:
                    continue
                run.eval((c['shape'], k, perm, json.dumps(c['schemas'], sort_keys=True) if c['shape'] == 'random-graph' else None), c['shape'] not in ('independent',))
                if 'panic' in e:
                    run.violation('panic site=%s shape=%s' % (e['panic']['site'], c['shape']), 'multi-schema parsing panicked', dict(case, order=list(perm)), observed=e['panic'])
                    continue
                ok = 'ok' in e
                outcomes.setdefault((ok, None if ok else e.get('err', {}).get('kind')), []).append((perm, r))
                if ok and r != 'w':
                    got = e['ok']['schemas']
                    # output in input order
                    for pos, idx in enumerate(perm):
                        d = got[pos]['dump']
                        nm = normalize.full_of(d['name']) if 'name' in d else None
                        if nm != top_name(c['schemas'][idx]):
                            run.violation('output-not-in-input-order shape=%s' % c['shape'], 'parse_list returned schema %s at the position of input %s' % (nm, top_name(c['schemas'][idx])),
                                          dict(case, order=list(perm)))
                        key = top_name(c['schemas'][idx])
                        nd = json.dumps(normalize.norm_dump(d), sort_keys=True)
                        dumps.setdefault(key, {}).setdefault(nd, []).append((perm, r))
        run.hist('shapes', c['shape'])
        run.hist('ground_truth', 'acceptable' if truth else 'unacceptable:%s' % why)
        if len(run.samples) < 5:
            run.sample({'shape': c['shape'], 'schemas': c['schemas'], 'ground_truth': truth, 'outcomes': {str(k2): len(v) for k2, v in outcomes.items()}})
        # parse_list (r*) and parse_str_with_list (w) have different contracts: for the latter the list must be
        # closed on its own and the main schema is resolved against it
        groups = {'list': ({}, truth, why)}
        for (okk, kind), occ in outcomes.items():
            for perm, r in occ:
                if r == 'w':
                    m = perm[0]
                    g = 'with_list main=%d' % m
                    if g not in groups:
                        rest_ok, rest_why = SS.ground_truth([c['schemas'][i] for i in range(k) if i != m])
                        t2, w2 = (truth, why) if rest_ok or not truth else (False, 'list-not-closed:' + rest_why)
                        if truth and not rest_ok and SS.closed_counting_aliases([c['schemas'][i] for i in range(k) if i != m]):
                            # the list is closed only if an alias counts as a definition: the specification does not say; not judged
                            t2, w2 = None, None
                        groups[g] = ({}, t2, w2)
                    groups[g][0].setdefault((okk, kind), []).append((perm, r))
                else:
                    groups['list'][0].setdefault((okk, kind), []).append((perm, r))
        any_err = False
        for g, (outc, gtruth, gwhy) in sorted(groups.items()):
            if not outc:
                continue
            api = g.split(' ')[0]
            oks = [k2 for k2 in outc if k2[0]]
            errs = [k2 for k2 in outc if not k2[0]]
            any_err = any_err or bool(errs)
            if oks and errs:
                run.violation('outcome-depends-on-order-or-run api=%s shape=%s truth=%s' % (api, c['shape'], 'acceptable' if gtruth else (gwhy or 'unspecified')),
                              'the same set succeeds for some orderings/runs and fails for others (%d ok, %d err: %s)' % (sum(len(outc[k2]) for k2 in oks), sum(len(outc[k2]) for k2 in errs), errs[0][1]),
                              dict(case, group=g, ok_example=[list(x) if isinstance(x, tuple) else x for x in outc[oks[0]][0]], err_example=[list(x) if isinstance(x, tuple) else x for x in outc[errs[0]][0]]))
            elif gtruth is None:
                run.count('with_list_groups_closed_only_through_an_alias(not_judged)')
            elif oks and not gtruth:
                run.violation('accepted-although-%s api=%s shape=%s' % (gwhy, api, c['shape']), 'the set is accepted in every ordering although the reference finds: %s' % gwhy, dict(case, group=g))
            elif errs and gtruth and not oks:
                run.violation('rejected-although-resolvable api=%s shape=%s kind=%s' % (api, c['shape'], errs[0][1]), 'every reference resolves and no name is defined twice, yet the set is rejected', dict(case, group=g),
                              observed=errs[0][1])
        oks = [k2 for k2 in groups['list'][0] if k2[0]]
        errs = [k2 for k2 in groups['list'][0] if not k2[0]]
        for key, variants in dumps.items():
            if len(variants) > 1:
                vs = list(variants.keys())
                ds = sorted(set(normalize.diffs(json.loads(vs[0]), json.loads(vs[1]))))
                run.violation('schema-differs-between-orderings shape=%s' % c['shape'], 'the schema returned for %s differs between orderings / runs' % key,
                              dict(case, name=key, order_a=list(variants[vs[0]][0][0]), order_b=list(variants[vs[1]][0][0])), observed=json.loads(vs[1]), expected=json.loads(vs[0]))
        # cross-ordering encode/decode for accepted sets
        if oks and not errs and truth and len(c['_perms']) > 1:
            try:
                p = names.Parser()
                nodes = [p.parse(j, None) for j in c['schemas']]
                rng = random.Random('%s/c20v/%s' % (run.seed, cid))
                vg = gvalue.ValueGen(rng, p.env, max_depth=4, max_len=2, max_map=1)
                idx = rng.randrange(k)
                v = vg.gen(nodes[idx])
                c['_v'] = (idx, v, nodes, p.env)
                pa, pb = 0, len(c['_perms']) - 1
                # the datum writer resolves its schemata in list order (documented): hand them over dependencies-first;
                # sets with a cycle between inputs cannot be handed over in any order and are only counted
                dord = SS.dep_order(c['schemas'])
                if dord is None:
                    run.count('accepted_sets_with_a_cycle_between_inputs(no_list_order_usable_by_the_datum_writer)')
                    del c['_v']
                    continue
                c['_dord'] = dord
                sa = ['%s_o%d_%d' % (cid, pa, i) for i in dord]
                sb = ['%s_o%d_%d' % (cid, pb, i) for i in dord]
                sia, sib = '%s_o%d_%d' % (cid, pa, idx), '%s_o%d_%d' % (cid, pb, idx)
                texts = [json.dumps(s) for s in c['schemas']]
                b2.append([{'id': '%s/pa' % cid, 'op': 'parse_list', 'texts': [texts[i] for i in c['_perms'][pa]], 'sids': ['%s_o%d_%d' % (cid, pa, i) for i in c['_perms'][pa]]},
                           {'id': '%s/pb' % cid, 'op': 'parse_list', 'texts': [texts[i] for i in c['_perms'][pb]], 'sids': ['%s_o%d_%d' % (cid, pb, i) for i in c['_perms'][pb]]},
                           {'id': '%s/wa' % cid, 'op': 'datum_write', 'sid': sia, 'schemata': sa, 'value': v},
                           {'id': '%s/wb' % cid, 'op': 'datum_write', 'sid': sib, 'schemata': sb, 'value': v}])
            except names.SchemaError:
                run.count('accepted_sets_the_reference_cannot_model')
    ev2 = run.exec_cases(b2) if b2 else {}
    b3 = []
    for c in cases:
        if '_v' not in c:
            continue
        cid = c['cid']
        k = len(c['schemas'])
        idx, v, nodes, env = c['_v']
        wa, wb = ev2.get('%s/wa' % cid), ev2.get('%s/wb' % cid)
        case = {'schemas': c['schemas'], 'shape': c['shape'], 'cid': cid, 'value': v, 'schema_index': idx}
        if wa is None or wb is None:
            continue
        rep = [ev2.get('%s/%s' % (cid, x)) for x in ('pa', 'pb')]
        if any(x is not None and 'err' in x for x in rep):
            # the same list parsed a moment ago in every ordering: a later parse of it failing is the run-dependence itself
            bad = [x for x in rep if x is not None and 'err' in x][0]
            run.violation('outcome-depends-on-order-or-run api=list shape=%s truth=acceptable' % c['shape'],
                          'a set that parsed in every ordering fails when parsed again (%s)' % bad['err'].get('kind'), case, observed=bad)
            continue
        if 'harness_error' in wa or 'harness_error' in wb:
            continue
        run.count('cross_ordering_value_checks')
        ba = wa.get('ok', {}).get('bytes')
        bb = wb.get('ok', {}).get('bytes')
        if ba is None or bb is None:
            which = wa if ba is None else wb
            kind = (which.get('ok', {}).get('write_err') or which.get('err') or {'kind': 'panic'}).get('kind')
            run.violation('cannot-write-with-parsed-set shape=%s kind=%s' % (c['shape'], kind), 'a conforming value cannot be written with the schemata parse_list returned', case, observed=which)
            continue
        exp = avrobin.encode(nodes[idx], env, v).hex()
        if ba != bb:
            run.violation('bytes-differ-between-orderings shape=%s' % c['shape'], 'the same value encodes differently with schemata from two orderings', case, observed=[ba, bb])
        elif ba != exp:
            run.violation('bytes-differ-from-reference shape=%s' % c['shape'], 'encoding with the parsed set differs from the reference encoding', case, observed=ba, expected=exp)
        sb = ['%s_o%d_%d' % (cid, len(c['_perms']) - 1, i) for i in c['_dord']]
        sib = '%s_o%d_%d' % (cid, len(c['_perms']) - 1, idx)
        texts = [json.dumps(s) for s in c['schemas']]
        pa, pb = 0, len(c['_perms']) - 1
        b3.append([{'id': '%s/pa' % cid, 'op': 'parse_list', 'texts': [texts[i] for i in c['_perms'][pa]], 'sids': ['%s_o%d_%d' % (cid, pa, i) for i in c['_perms'][pa]]},
                   {'id': '%s/pb' % cid, 'op': 'parse_list', 'texts': [texts[i] for i in c['_perms'][pb]], 'sids': ['%s_o%d_%d' % (cid, pb, i) for i in c['_perms'][pb]]},
                   {'id': '%s/rb' % cid, 'op': 'datum_read', 'sid': sib, 'schemata': sb, 'bytes': ba}])
    ev3 = run.exec_cases(b3) if b3 else {}
    for c in cases:
        if '_v' not in c:
            continue
        cid = c['cid']
        idx, v, nodes, env = c['_v']
        e = ev3.get('%s/rb' % cid)
        if e is None:
            continue
        case = {'schemas': c['schemas'], 'shape': c['shape'], 'cid': cid, 'value': v, 'schema_index': idx}
        it = e.get('ok', {}).get('items', [{}])[0] if 'ok' in e else {}
        if 'value' not in it:
            run.violation('written-with-one-ordering-unreadable-with-another shape=%s' % c['shape'], 'a value written with schemata from one ordering cannot be read with another', case, observed=e)
        elif not avrobin.veq(it['value'], v):
            run.violation('value-differs-between-orderings shape=%s' % c['shape'], 'a value written with one ordering decodes differently with another', case, observed=it['value'], expected=v)


def replay(run, rc):
    c = rc['case']
    check(run, replay_case={'cid': c.get('cid', 'g0'), 'schemas': c['schemas'], 'shape': c['shape']})
