"""C09 compatibility verdicts are sound with respect to actual reading."""
import itertools
import json
import random

from . import common
from .c08 import make_pairs, sig_labels
from ..gen import schema as gschema
from ..gen import value as gvalue
from ..ref import names, avrobin
from ..ref.names import deref

LEVEL = 'exploration'

ALPHABET = ['null', 'boolean', 'int', 'long', 'float', 'double', 'bytes', 'string',
            {'type': 'int', 'logicalType': 'date'}, {'type': 'long', 'logicalType': 'timestamp-millis'}, {'type': 'long', 'logicalType': 'timestamp-micros'},
            {'type': 'string', 'logicalType': 'uuid'}, {'type': 'bytes', 'logicalType': 'decimal', 'precision': 6, 'scale': 2}, {'type': 'bytes', 'logicalType': 'big-decimal'},
            {'type': 'fixed', 'name': 'F4', 'size': 4}, {'type': 'fixed', 'name': 'F16', 'size': 16}, {'type': 'fixed', 'name': 'U16', 'size': 16, 'logicalType': 'uuid'},
            {'type': 'enum', 'name': 'E', 'symbols': ['A', 'B']}, {'type': 'enum', 'name': 'E', 'symbols': ['A', 'B', 'C']}, {'type': 'enum', 'name': 'E', 'symbols': ['B', 'A'], 'default': 'A'}]


def enumeration(depth2):
    out = list(ALPHABET)
    base = ['null', 'int', 'long', 'string', 'bytes', {'type': 'enum', 'name': 'E', 'symbols': ['A', 'B']}]
    for b in base:
        out.append({'type': 'array', 'items': b})
        out.append({'type': 'map', 'values': b})
        out.append(['null', b] if b != 'null' else ['null', 'int'])
        out.append({'type': 'record', 'name': 'R', 'fields': [{'name': 'a', 'type': b}]})
        out.append({'type': 'record', 'name': 'R', 'fields': [{'name': 'a', 'type': b}, {'name': 'b', 'type': 'int', 'default': 1}]})
    for e in (ALPHABET[17], ALPHABET[18], ALPHABET[19]):
        out.append(['null', e])
        out.append({'type': 'record', 'name': 'R', 'fields': [{'name': 'a', 'type': ['null', e]}]})
        out.append({'type': 'array', 'items': ['null', e]})
    out.append(['int', 'string'])
    out.append(['string', 'int', 'null'])
    out.append({'type': 'record', 'name': 'R', 'fields': [{'name': 'x', 'type': {'type': 'enum', 'name': 'E', 'symbols': ['A', 'B']}}, {'name': 'y', 'type': 'E'}]})
    out.append({'type': 'record', 'name': 'R', 'fields': [{'name': 'y', 'type': {'type': 'enum', 'name': 'E', 'symbols': ['A', 'B']}}, {'name': 'x', 'type': 'E'}]})
    out.append({'type': 'record', 'name': 'L', 'fields': [{'name': 'v', 'type': 'long'}, {'name': 'n', 'type': ['null', 'L']}]})
    out.append({'type': 'record', 'name': 'L', 'fields': [{'name': 'v', 'type': 'int'}, {'name': 'n', 'type': ['null', 'L']}]})
    return out


def mixed_records():
    """records of two and three fields whose per-field verdicts differ (a Partial field before or after Full ones, reader-only fields with a
    default in between): the record verdict must be the weakest of its fields wherever the weak field stands"""
    def fld(kind, i):
        n = 'f%d' % i
        if kind == 'P':
            return ({'name': n, 'type': {'type': 'enum', 'name': 'E%d' % i, 'symbols': ['A', 'B', 'C']}}, {'name': n, 'type': {'type': 'enum', 'name': 'E%d' % i, 'symbols': ['A', 'B']}})
        if kind == 'L':
            return ({'name': n, 'type': 'int'}, {'name': n, 'type': 'long'})
        if kind == 'S':
            return ({'name': n, 'type': 'string'}, {'name': n, 'type': 'string'})
        return (None, {'name': n, 'type': 'int', 'default': 7})
    out = []
    for n in (2, 3):
        for pat in itertools.product('PLSD', repeat=n):
            if 'P' not in pat or all(k in 'PD' for k in pat) and len(set(pat)) == 1:
                continue
            fs = [fld(k, i) for i, k in enumerate(pat)]
            w = {'type': 'record', 'name': 'R', 'fields': [a for a, _ in fs if a is not None]}
            r = {'type': 'record', 'name': 'R', 'fields': [b for _, b in fs]}
            out.append((''.join(pat), w, r))
    return out


def hostile_values(rng, node, env, k):
    """values of W biased to what breaks readers"""
    vg = gvalue.ValueGen(rng, env, boundary_bias=0.7, max_depth=4, max_len=2, max_map=2)
    vals = [vg.gen(node) for _ in range(k)]
    n = deref(node, env)
    if n['k'] == 'bytes' and 'logical' not in n:
        vals += [{'B': 'ff'}, {'B': 'c328'}, {'B': '00' * 15}, {'B': '00' * 17}, {'B': ''}]
    if n['k'] == 'string' and 'logical' not in n:
        vals += [{'s': 'not-a-uuid'}, {'s': ''}, {'s': 'z' * 36}]
    if n['k'] in ('long',) and 'logical' not in n:
        vals += [{'l': 2 ** 62}, {'l': -2 ** 63}, {'l': 2 ** 31}]
    return vals


def check(run, replay_case=None):
    n_pairs = 500 if run.quick() else 20000
    k_vals = 6 if run.quick() else 40
    run.rule = ('all ordered pairs of a bounded enumeration (primitives, logical types, fixed, enums, and one-level containers/records/unions over a reduced alphabet, incl. repeated named '
                'types, recursive records and two/three-field records mixing a Partial field with Full and defaulted ones in every position) '
                '+ evolution pairs of C08 labelled safe/unsafe; for pairs reported Full: hostile values of W (invalid UTF-8, non-uuid strings, 15/17-byte '
                'bytes, extremes, every branch and symbol) written with W and read with R; distinct = (verdict, writer shape, reader shape); non-trivial = W != R')
    run.min_evaluations = 500
    run.min_distinct = 100
    run.assumptions = ['"always safe" is decided by the generator\'s step labels (promotion, reader field with default, field removed/reordered, reader union branch / enum symbol added), not by the library']
    if replay_case is not None:
        pairs = [replay_case]
    else:
        en = enumeration(True)
        pairs = []
        for a, b in itertools.product(range(len(en)), repeat=2):
            pairs.append({'cid': 'e%d_%d' % (a, b), 'writer': en[a], 'reader': en[b], 'labels': ['identity'] if a == b else ['enumerated'], 'safe': True if a == b else None})
        if run.quick():
            rng = random.Random('c09-enumeration-subsample')      # seed independent: the deterministic part of the workload
            diag = [p for p in pairs if p['labels'] == ['identity']]
            rest = [p for p in pairs if p['labels'] != ['identity']]
            rng.shuffle(rest)
            pairs = diag + rest[:1600]
        for pat, w, r in mixed_records():
            pairs.append({'cid': 'em%s' % pat, 'writer': w, 'reader': r, 'labels': ['enumerated'], 'safe': None})
        for c in make_pairs(run, n_pairs, 'c09'):
            c['cid'] = 'v' + c['cid']
            pairs.append(c)
    b1 = []
    for c in pairs:
        cid = c['cid']
        b1.append([{'id': '%s/pw' % cid, 'op': 'parse_schema', 'sid': cid + 'w', 'text': json.dumps(c['writer'])},
                   {'id': '%s/pr' % cid, 'op': 'parse_schema', 'sid': cid + 'r', 'text': json.dumps(c['reader'])},
                   {'id': '%s/cr' % cid, 'op': 'can_read', 'w': cid + 'w', 'r': cid + 'r'},
                   {'id': '%s/m1' % cid, 'op': 'mutual_read', 'a': cid + 'w', 'b': cid + 'r'},
                   {'id': '%s/m2' % cid, 'op': 'mutual_read', 'a': cid + 'r', 'b': cid + 'w'},
                   {'id': '%s/sw' % cid, 'op': 'can_read', 'w': cid + 'w', 'r': cid + 'w'}])
    ev = run.exec_cases(b1)
    b2 = []
    for c in pairs:
        cid = c['cid']
        cr = ev.get('%s/cr' % cid)
        if cr is None or 'ok' not in (ev.get('%s/pw' % cid) or {}) or 'ok' not in (ev.get('%s/pr' % cid) or {}):
            continue
        case = {k: v for k, v in c.items() if k != 'values'}
        wn, wenv = names.parse(c['writer'])
        rn, renv = names.parse(c['reader'])
        verdict = verdict_of(cr)
        c['_verdict'] = verdict
        run.eval((verdict, common.schema_shape(wn, wenv), common.schema_shape(rn, renv)), json.dumps(c['writer']) != json.dumps(c['reader']))
        run.hist('verdicts', verdict)
        if verdict == 'panic':
            run.violation('can_read-panic site=%s' % cr['panic']['site'], 'can_read panicked', case, observed=cr)
            continue
        sw = ev.get('%s/sw' % cid)
        if sw is not None and verdict_of(sw) != 'Full':
            run.violation('not-fully-compatible-with-itself', 'can_read(S, S) is not Full', {'schema': c['writer']}, observed=sw)
        m1, m2 = ev.get('%s/m1' % cid), ev.get('%s/m2' % cid)
        if m1 is not None and m2 is not None and verdict_of(m1) != verdict_of(m2):
            run.violation('mutual_read-asymmetric %s/%s' % tuple(sorted([verdict_of(m1), verdict_of(m2)])), 'mutual_read(A,B) and mutual_read(B,A) differ', case,
                          observed=[verdict_of(m1), verdict_of(m2)])
        if c['safe'] is True and verdict == 'Incompatible' and c['labels'] != ['enumerated']:
            run.violation('safe-evolution-reported-incompatible steps=%s' % sig_labels(c['labels']), 'a pair that differs only by always-safe steps is reported incompatible', case, observed=cr)
        if verdict == 'Full':
            rng = random.Random('c09v/%s' % cid) if cid.startswith('e') else random.Random('%s/c09v/%s' % (run.seed, cid))
            vals = hostile_values(rng, wn, wenv, k_vals)
            c['_vals'] = vals
            ops = [{'id': '%s/pw' % cid, 'op': 'parse_schema', 'sid': cid + 'w', 'text': json.dumps(c['writer'])},
                   {'id': '%s/pr' % cid, 'op': 'parse_schema', 'sid': cid + 'r', 'text': json.dumps(c['reader'])}]
            for i, v in enumerate(vals):
                b = avrobin.encode(wn, wenv, v)
                ops.append({'id': '%s/d%d' % (cid, i), 'op': 'datum_read', 'sid': cid + 'w', 'reader_sid': cid + 'r', 'bytes': b.hex()})
            b2.append(ops)
            run.sample({'writer': c['writer'], 'reader': c['reader'], 'verdict': verdict, 'values_tried': len(vals)})
    ev2 = run.exec_cases(b2)
    for c in pairs:
        if '_vals' not in c:
            continue
        cid = c['cid']
        case = {k: v for k, v in c.items() if not k.startswith('_') and k != 'values'}
        wn, wenv = names.parse(c['writer'])
        rn, renv = names.parse(c['reader'])
        for i, v in enumerate(c['_vals']):
            e = ev2.get('%s/d%d' % (cid, i))
            if e is None:
                continue
            run.count('full_verdicts_probed_with_values')
            if 'panic' in e:
                run.violation('panic-reading-full-pair site=%s' % e['panic']['site'], 'reading panicked', dict(case, value=v), observed=e)
                break
            it = e['ok']['items'][0] if 'ok' in e else {'err': e.get('err', {})}
            if 'err' in it:
                wk = names.kind_of(wn, wenv)
                rk = names.kind_of(rn, renv)
                # enumerated pairs are seed independent: name the pair, so that a verdict that newly becomes unsound is a new signature
                where = 'pair=%s>%s' % (kdesc(c['writer']), kdesc(c['reader'])) if cid.startswith('e') else 'random-pair'
                run.violation('full-but-read-fails %s error=%s' % (where, it['err'].get('kind')),
                              'can_read says Full, yet a value writable with W fails to read with R', dict(case, value=v), observed=it['err'])
                break


def kdesc(j):
    """short, content-based description of an enumerated schema (stable across tiers and enumeration sizes)"""
    if isinstance(j, str):
        return j
    if isinstance(j, list):
        return 'u[%s]' % ','.join(kdesc(b) for b in j)
    t = j.get('type')
    lt = j.get('logicalType')
    if t == 'record':
        return 'r{%s}' % ','.join('%s:%s%s' % (f['name'], kdesc(f['type']), '=d' if 'default' in f else '') for f in j.get('fields', []))
    if t == 'enum':
        return 'e(%s%s)' % ('|'.join(j.get('symbols', [])), ';d' if 'default' in j else '')
    if t == 'fixed':
        base = 'fx%s' % j.get('size')
    elif t == 'array':
        return 'a<%s>' % kdesc(j.get('items'))
    elif t == 'map':
        return 'm<%s>' % kdesc(j.get('values'))
    else:
        base = kdesc(t)
    if lt:
        return '%s@%s' % (lt, base) + ('(%s,%s)' % (j.get('precision'), j.get('scale', 0)) if lt == 'decimal' else '')
    return base


def verdict_of(e):
    if 'panic' in e:
        return 'panic'
    if 'ok' not in e:
        return 'error'
    if 'compat' in e['ok']:
        return e['ok']['compat']
    return 'Incompatible'


def replay(run, rc):
    c = rc['case']
    c.pop('value', None)
    check(run, replay_case=c)
