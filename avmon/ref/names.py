"""Reference schema parser: Avro schema JSON -> node model, written from the specification.

Independent of the library.  A node is a dict:
  {'k': kind, ...}  kinds: null boolean int long float double bytes string
                           array(items) map(values) union(branches)
                           record(name, ns, full, fields=[{name, type, default?, has_default, aliases, doc, order, attrs}], aliases, doc, attrs)
                           enum(name, ns, full, symbols, default, aliases, doc, attrs)
                           fixed(name, ns, full, size, aliases, doc, attrs)
                           ref(full)            -- reference to a named type defined elsewhere
  optional 'logical': {'t': name, precision?, scale?}  (only when valid for the base type)
Env maps full name -> defining node.
"""
import re

PRIMS = ('null', 'boolean', 'int', 'long', 'float', 'double', 'bytes', 'string')
NAME_RE = re.compile(r'^[A-Za-z_][A-Za-z0-9_]*$')


class SchemaError(Exception):
    def __init__(self, msg, rule=None):
        Exception.__init__(self, msg)
        self.rule = rule or msg.split(' ')[0]


def split_full(full):
    if '.' in full:
        ns, _, n = full.rpartition('.')
        return ns, n
    return None, full


def compute_name(obj, enclosing_ns):
    """The spec's rule for the full name of a named-type definition."""
    name = obj.get('name')
    if not isinstance(name, str) or name == '':
        raise SchemaError('missing name', 'name-missing')
    if '.' in name:
        ns, n = split_full(name)
    else:
        n = name
        ns = obj.get('namespace', None)
        if ns is None:
            ns = enclosing_ns
        elif not isinstance(ns, str):
            raise SchemaError('namespace not a string', 'namespace-not-string')
    if ns == '':
        ns = None
    if not NAME_RE.match(n):
        raise SchemaError('bad name %r' % n, 'name-grammar')
    if ns is not None:
        for part in ns.split('.'):
            if not NAME_RE.match(part):
                raise SchemaError('bad namespace %r' % ns, 'namespace-grammar')
    return ns, n, (ns + '.' + n) if ns else n


def resolve_ref(name, enclosing_ns):
    if name.startswith('.'):
        return name[1:]          # leading dot: the null namespace
    if '.' in name:
        return name
    return (enclosing_ns + '.' + name) if enclosing_ns else name


def alias_full(alias, ns):
    if '.' in alias:
        return alias
    return (ns + '.' + alias) if ns else alias


LOGICAL_BASE = {
    'decimal': ('bytes', 'fixed'), 'big-decimal': ('bytes',), 'uuid': ('string', 'fixed', 'bytes'),
    'date': ('int',), 'time-millis': ('int',), 'time-micros': ('long',),
    'timestamp-millis': ('long',), 'timestamp-micros': ('long',), 'timestamp-nanos': ('long',),
    'local-timestamp-millis': ('long',), 'local-timestamp-micros': ('long',),
    'local-timestamp-nanos': ('long',), 'duration': ('fixed',),
}

STRUCT_KEYS = {
    'record': ('type', 'name', 'namespace', 'doc', 'aliases', 'fields', 'logicalType'),
    'enum': ('type', 'name', 'namespace', 'doc', 'aliases', 'symbols', 'default', 'logicalType'),
    'fixed': ('type', 'name', 'namespace', 'doc', 'aliases', 'size', 'logicalType'),
    'array': ('type', 'items', 'logicalType'),
    'map': ('type', 'values', 'logicalType'),
}


def max_prec_for_len(n):
    import math
    return int(math.floor(math.log10(2.0 ** (8 * n - 1) - 1)))


class Parser:
    def __init__(self, known=None):
        self.env = dict(known or {})      # full name -> node (definitions)
        self.defs_in_order = []
        self.unions = []

    def parse(self, j, ns=None):
        if isinstance(j, str):
            if j in PRIMS:
                return {'k': j}
            full = resolve_ref(j, ns)
            return {'k': 'ref', 'full': full}
        if isinstance(j, list):
            node = {'k': 'union', 'branches': [self.parse(b, ns) for b in j]}
            self.unions.append(node)
            return node
        if isinstance(j, dict):
            return self.parse_complex(j, ns)
        raise SchemaError('schema must be string, object or array', 'schema-json-kind')

    def parse_complex(self, j, ns):
        t = j.get('type')
        if t is None:
            raise SchemaError('no type', 'type-missing')
        if isinstance(t, (dict, list)):
            node = self.parse(t, ns)
        elif t in PRIMS:
            node = {'k': t}
        elif t == 'record' or t == 'error':
            node = self.parse_record(j, ns)
        elif t == 'enum':
            node = self.parse_enum(j, ns)
        elif t == 'fixed':
            node = self.parse_fixed(j, ns)
        elif t == 'array':
            node = {'k': 'array', 'items': self.parse(j.get('items'), ns),
                    'attrs': {k: v for k, v in j.items() if k not in STRUCT_KEYS['array']}}
        elif t == 'map':
            node = {'k': 'map', 'values': self.parse(j.get('values'), ns),
                    'attrs': {k: v for k, v in j.items() if k not in STRUCT_KEYS['map']}}
        elif isinstance(t, str):
            node = {'k': 'ref', 'full': resolve_ref(t, ns)}
        else:
            raise SchemaError('bad type', 'type-json-kind')
        lt = j.get('logicalType')
        if isinstance(lt, str) and lt in LOGICAL_BASE and node['k'] in LOGICAL_BASE[lt]:
            lg = self.logical(lt, j, node)
            if lg is not None:
                node = dict(node)
                node['logical'] = lg
        return node

    def logical(self, lt, j, node):
        if lt == 'decimal':
            p = j.get('precision')
            s = j.get('scale', 0)
            if not isinstance(p, int) or isinstance(p, bool) or not isinstance(s, int) or isinstance(s, bool):
                return None
            if p < 1 or s < 0 or s > p:
                return None
            return {'t': 'decimal', 'precision': p, 'scale': s}
        if lt == 'uuid' and node['k'] == 'fixed' and node['size'] != 16:
            return None
        if lt == 'duration' and node['size'] != 12:
            return None
        return {'t': lt}

    def define(self, full, node):
        if full in self.env:
            raise SchemaError('duplicate definition of %s' % full, 'duplicate-definition')
        self.env[full] = node
        self.defs_in_order.append(full)

    def named_common(self, j, ns, kind):
        nns, n, full = compute_name(j, ns)
        aliases = j.get('aliases')
        al = None
        if isinstance(aliases, list) and all(isinstance(a, str) for a in aliases):
            al = [alias_full(a, nns) for a in aliases]
        node = {'k': kind, 'name': n, 'ns': nns, 'full': full, 'aliases': al, 'doc': j.get('doc') if isinstance(j.get('doc'), str) else None,
                'attrs': {k: v for k, v in j.items() if k not in STRUCT_KEYS[kind]}}
        return node

    def parse_record(self, j, ns):
        node = self.named_common(j, ns, 'record')
        self.define(node['full'], node)
        fields = j.get('fields')
        if not isinstance(fields, list):
            raise SchemaError('fields', 'fields-not-list')
        out = []
        seen = set()
        for f in fields:
            if not isinstance(f, dict):
                raise SchemaError('field not object', 'field-not-object')
            fn = f.get('name')
            if not isinstance(fn, str) or not NAME_RE.match(fn):
                raise SchemaError('bad field name', 'field-name-grammar')
            if fn in seen:
                raise SchemaError('duplicate field', 'duplicate-field')
            seen.add(fn)
            if 'type' not in f:
                raise SchemaError('field without type', 'field-type-missing')
            ft = self.parse(f['type'], node['ns'])
            fa = f.get('aliases')
            out.append({'name': fn, 'type': ft, 'has_default': 'default' in f, 'default': f.get('default'),
                        'aliases': fa if isinstance(fa, list) else [], 'doc': f.get('doc') if isinstance(f.get('doc'), str) else None,
                        'order': f.get('order'),
                        'attrs': {k: v for k, v in f.items() if k not in ('name', 'type', 'default', 'aliases', 'doc')}})
        node['fields'] = out
        return node

    def parse_enum(self, j, ns):
        node = self.named_common(j, ns, 'enum')
        syms = j.get('symbols')
        if not isinstance(syms, list) or not all(isinstance(s, str) and NAME_RE.match(s) for s in syms):
            raise SchemaError('symbols', 'symbols-malformed')
        if len(set(syms)) != len(syms):
            raise SchemaError('duplicate symbols', 'duplicate-symbol')
        node['symbols'] = syms
        d = j.get('default')
        if d is not None:
            if d not in syms:
                raise SchemaError('enum default not a symbol', 'enum-default-not-symbol')
        node['default'] = d
        self.define(node['full'], node)
        return node

    def parse_fixed(self, j, ns):
        node = self.named_common(j, ns, 'fixed')
        size = j.get('size')
        if not isinstance(size, int) or isinstance(size, bool) or size < 0:
            raise SchemaError('size', 'fixed-size-malformed')
        node['size'] = size
        self.define(node['full'], node)
        return node


def parse(j, known=None):
    """Parse schema JSON (already json.loads-ed). Returns (node, env)."""
    p = Parser(known)
    node = p.parse(j, None)
    check_refs(node, p.env)
    for u in p.unions:
        check_union(u, p.env)
    return node, p.env


def union_key(b, env):
    if b['k'] == 'ref':
        return 'named:' + b['full']
    if b['k'] in ('record', 'enum', 'fixed'):
        return 'named:' + b['full']
    return b['k']


def check_union(u, env):
    seen = set()
    for b in u['branches']:
        if b['k'] == 'union':
            raise SchemaError('union immediately contains a union', 'nested-union')
        k = union_key(b, env)
        if k in seen:
            raise SchemaError('union has two branches of kind %s' % k, 'duplicate-union-branch')
        seen.add(k)


def check_refs(node, env, seen=None):
    seen = seen if seen is not None else set()
    k = node['k']
    if k == 'ref':
        if node['full'] not in env:
            raise SchemaError('unresolved reference %s' % node['full'], 'unresolved-reference')
    elif k == 'array':
        check_refs(node['items'], env, seen)
    elif k == 'map':
        check_refs(node['values'], env, seen)
    elif k == 'union':
        for b in node['branches']:
            check_refs(b, env, seen)
    elif k == 'record':
        if id(node) in seen:
            return
        seen.add(id(node))
        for f in node['fields']:
            check_refs(f['type'], env, seen)


def deref(node, env):
    while node['k'] == 'ref':
        node = env[node['full']]
    return node


def kind_of(node, env):
    """logical kind if any, else structural kind (after following refs)"""
    n = deref(node, env)
    if 'logical' in n:
        return n['logical']['t']
    return n['k']
