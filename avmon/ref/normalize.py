"""Reference normal form of a schema JSON text: every name resolved against its enclosing
namespace per the specification, every attribute kept.  Two texts denote the same schema iff
their normal forms are equal.  Also converts the harness's structural dump of a library Schema
into the same normal form, so the two can be compared."""
from . import names


def norm_node(node):
    k = node['k']
    lg = node.get('logical')
    if k == 'ref':
        return {'ref': node['full']}
    if k in names.PRIMS:
        out = {'k': k}
    elif k == 'array':
        out = {'k': 'array', 'items': norm_node(node['items']), 'attrs': node.get('attrs', {})}
    elif k == 'map':
        out = {'k': 'map', 'values': norm_node(node['values']), 'attrs': node.get('attrs', {})}
    elif k == 'union':
        return {'k': 'union', 'branches': [norm_node(b) for b in node['branches']]}
    elif k == 'record':
        out = {'k': 'record', 'full': node['full'], 'aliases': node['aliases'], 'doc': node['doc'], 'attrs': node['attrs'],
               'fields': [{'name': f['name'], 'type': norm_node(f['type']), 'has_default': f['has_default'], 'default': f['default'],
                           'aliases': f['aliases'], 'doc': f['doc'], 'attrs': f['attrs']} for f in node['fields']]}
    elif k == 'enum':
        out = {'k': 'enum', 'full': node['full'], 'aliases': node['aliases'], 'doc': node['doc'], 'attrs': node['attrs'],
               'symbols': node['symbols'], 'default': node['default']}
    elif k == 'fixed':
        out = {'k': 'fixed', 'full': node['full'], 'aliases': node['aliases'], 'doc': node['doc'], 'attrs': dict(node['attrs']), 'size': node['size']}
    else:
        raise ValueError(k)
    if lg:
        out['logical'] = dict(lg)
        if lg['t'] == 'decimal' and 'attrs' in out:
            out['attrs'] = {a: v for a, v in out['attrs'].items() if a not in ('precision', 'scale')}
    return out


def norm_json(schema_json):
    node, env = names.parse(schema_json)
    return norm_node(node)


def full_of(n):
    return (n['ns'] + '.' + n['name']) if n.get('ns') else n['name']


def norm_dump(d):
    """harness dump (dump.rs) -> the same normal form"""
    k = d['k']
    if k in names.PRIMS:
        return {'k': k}
    if k == 'ref':
        return {'ref': full_of(d['name'])}
    if k == 'array':
        return {'k': 'array', 'items': norm_dump(d['items']), 'attrs': d['attrs']}
    if k == 'map':
        return {'k': 'map', 'values': norm_dump(d['values']), 'attrs': d['attrs']}
    if k == 'union':
        return {'k': 'union', 'branches': [norm_dump(b) for b in d['branches']]}

    def al(a):
        return None if a is None else [full_of(x) for x in a]
    if k == 'record':
        return {'k': 'record', 'full': full_of(d['name']), 'aliases': al(d['aliases']), 'doc': d['doc'], 'attrs': d['attrs'],
                'fields': [{'name': f['name'], 'type': norm_dump(f['schema']), 'has_default': f['has_default'], 'default': f['default'],
                            'aliases': f['aliases'], 'doc': f['doc'], 'attrs': f['attrs']} for f in d['fields']]}
    if k == 'enum':
        return {'k': 'enum', 'full': full_of(d['name']), 'aliases': al(d['aliases']), 'doc': d['doc'], 'attrs': d['attrs'],
                'symbols': d['symbols'], 'default': d['default']}
    if k == 'fixed':
        return {'k': 'fixed', 'full': full_of(d['name']), 'aliases': al(d['aliases']), 'doc': d['doc'], 'attrs': d['attrs'], 'size': d['size']}
    if k == 'decimal':
        inner = norm_dump(d['inner'])
        inner['logical'] = {'t': 'decimal', 'precision': d['precision'], 'scale': d['scale']}
        if 'attrs' in inner:
            inner['attrs'] = {a: v for a, v in inner['attrs'].items() if a not in ('precision', 'scale')}
        return inner
    if k in ('uuid', 'duration'):
        inner = norm_dump(d['inner'])
        inner['logical'] = {'t': k}
        return inner
    if k == 'big-decimal':
        return {'k': 'bytes', 'logical': {'t': 'big-decimal'}}
    base = {'date': 'int', 'time-millis': 'int'}.get(k, 'long')
    return {'k': base, 'logical': {'t': k}}


def diffs(a, b, ctx='top', out=None):
    """input-independent descriptions of every difference between two normal forms"""
    out = out if out is not None else []
    if type(a) != type(b):
        out.append('type-mismatch at=%s' % ctx)
        return out
    if isinstance(a, dict):
        kind = a.get('k', b.get('k', 'ref' if 'ref' in a else 'field' if 'type' in a else 'obj'))
        for key in set(a) | set(b):
            if key not in a or key not in b:
                out.append('%s-%s on=%s' % ('missing' if key not in b else 'extra', key, kind))
                continue
            if key in ('attrs', 'default', 'doc', 'aliases', 'symbols', 'size', 'full', 'ref', 'name', 'has_default', 'k', 'logical'):
                if not json_eq(a[key], b[key]):
                    if key in ('full', 'ref') and isinstance(a[key], str) and isinstance(b[key], str) and ('.' not in a[key]) != ('.' not in b[key]) \
                            and a[key].rpartition('.')[2] == b[key].rpartition('.')[2]:
                        # one side is in the null namespace, the other has the same simple name inside a namespace
                        out.append('null-namespace-lost %s on=%s' % (key, kind))
                    elif key == 'aliases' and isinstance(a[key], list) and isinstance(b[key], list) and len(a[key]) == len(b[key]) and \
                            all(x.rpartition('.')[2] == y.rpartition('.')[2] and ('.' in x) != ('.' in y) for x, y in zip(a[key], b[key])):
                        out.append('null-namespace-lost aliases on=%s' % kind)
                    else:
                        out.append('%s-differs on=%s' % (key, kind))
            else:
                diffs(a[key], b[key], key, out)
        return out
    if isinstance(a, list):
        if len(a) != len(b):
            out.append('length-differs at=%s' % ctx)
        for x, y in zip(a, b):
            diffs(x, y, ctx, out)
        return out
    if not json_eq(a, b):
        out.append('value-differs at=%s' % ctx)
    return out


def json_eq(a, b):
    if isinstance(a, bool) != isinstance(b, bool):
        return False
    if isinstance(a, (int, float)) and isinstance(b, (int, float)) and not isinstance(a, bool):
        return float(a) == float(b) and (isinstance(a, int) == isinstance(b, int) or float(a).is_integer())
    if type(a) != type(b):
        return False
    if isinstance(a, dict):
        return a.keys() == b.keys() and all(json_eq(a[k], b[k]) for k in a)
    if isinstance(a, list):
        return len(a) == len(b) and all(json_eq(x, y) for x, y in zip(a, b))
    return a == b
