"""CRC-64-AVRO exactly as printed in the specification (table built from EMPTY)."""
EMPTY = 0xc15d213aa4d7a795
M = 0xFFFFFFFFFFFFFFFF
TABLE = []
for i in range(256):
    fp = i
    for _ in range(8):
        fp = ((fp >> 1) ^ (EMPTY & (-(fp & 1) & M))) & M
    TABLE.append(fp)


def fingerprint64(buf):
    fp = EMPTY
    for b in buf:
        fp = ((fp >> 8) ^ TABLE[(fp ^ b) & 0xff]) & M
    return fp


def fingerprint_le(buf):
    return fingerprint64(buf).to_bytes(8, 'little')
