"""Raw snappy block format, written from the format description (decoder: full; encoder: literals
plus simple back-reference copies so that the library's decoder sees both element kinds)."""


class SnappyError(Exception):
    pass


def _uvarint(buf, pos):
    shift = 0
    out = 0
    while True:
        if pos >= len(buf):
            raise SnappyError('eof in length')
        b = buf[pos]
        pos += 1
        out |= (b & 0x7f) << shift
        if not b & 0x80:
            return out, pos
        shift += 7
        if shift > 35:
            raise SnappyError('length varint too long')


def decompress(buf, limit=1 << 30):
    n, pos = _uvarint(buf, 0)
    if n > limit:
        raise SnappyError('declared length above limit')
    out = bytearray()
    while pos < len(buf):
        tag = buf[pos]
        pos += 1
        t = tag & 3
        if t == 0:
            ln = tag >> 2
            if ln >= 60:
                nb = ln - 59
                if pos + nb > len(buf):
                    raise SnappyError('eof in literal length')
                ln = int.from_bytes(buf[pos:pos + nb], 'little')
                pos += nb
            ln += 1
            if pos + ln > len(buf):
                raise SnappyError('eof in literal')
            out += buf[pos:pos + ln]
            pos += ln
        else:
            if t == 1:
                ln = ((tag >> 2) & 7) + 4
                if pos >= len(buf):
                    raise SnappyError('eof in copy')
                off = ((tag >> 5) << 8) | buf[pos]
                pos += 1
            elif t == 2:
                ln = (tag >> 2) + 1
                if pos + 2 > len(buf):
                    raise SnappyError('eof in copy')
                off = int.from_bytes(buf[pos:pos + 2], 'little')
                pos += 2
            else:
                ln = (tag >> 2) + 1
                if pos + 4 > len(buf):
                    raise SnappyError('eof in copy')
                off = int.from_bytes(buf[pos:pos + 4], 'little')
                pos += 4
            if off == 0 or off > len(out):
                raise SnappyError('bad copy offset')
            for _ in range(ln):
                out.append(out[-off])
        if len(out) > n:
            raise SnappyError('output longer than declared')
    if len(out) != n:
        raise SnappyError('output length %d != declared %d' % (len(out), n))
    return bytes(out)


def _emit_literal(out, data):
    i = 0
    while i < len(data):
        chunk = data[i:i + 65536]
        ln = len(chunk) - 1
        if ln < 60:
            out.append(ln << 2)
        elif ln < 256:
            out.append(60 << 2)
            out.append(ln)
        else:
            out.append(61 << 2)
            out += ln.to_bytes(2, 'little')
        out += chunk
        i += len(chunk)


def compress(data):
    out = bytearray()
    n = len(data)
    while True:
        b = n & 0x7f
        n >>= 7
        if n:
            out.append(b | 0x80)
        else:
            out.append(b)
            break
    # greedy: runs of a repeated byte become a literal + copies with offset 1 (2-byte-offset form)
    i = 0
    lit = bytearray()
    while i < len(data):
        j = i
        while j < len(data) and data[j] == data[i]:
            j += 1
        run = j - i
        if run >= 8:
            lit.append(data[i])
            _emit_literal(out, bytes(lit))
            lit = bytearray()
            left = run - 1
            while left > 0:
                c = min(64, left)
                out.append(((c - 1) << 2) | 2)
                out += (1).to_bytes(2, 'little')
                left -= c
            i = j
        else:
            lit += data[i:j]
            i = j
    if lit:
        _emit_literal(out, bytes(lit))
    return bytes(out)
