"""Reference object-container-file reader and writer, written from the specification."""
import bz2
import lzma
import zlib

from . import avrobin, snappy
from .avrobin import enc_long, dec_long, take, DecodeError

MAGIC = b'Obj\x01'
CODECS = ('null', 'deflate', 'snappy', 'bzip2', 'xz', 'zstandard')


class OcfError(Exception):
    pass


def decode_meta(buf, pos):
    """map<bytes>, any legal block layout; returns (dict str->bytes, pos, n_blocks)"""
    meta = {}
    nblocks = 0
    while True:
        cnt, pos = dec_long(buf, pos)
        if cnt == 0:
            break
        nblocks += 1
        size = None
        if cnt < 0:
            cnt = -cnt
            size, pos = dec_long(buf, pos)
        start = pos
        for _ in range(cnt):
            n, pos = dec_long(buf, pos)
            k, pos = take(buf, pos, n)
            n, pos = dec_long(buf, pos)
            v, pos = take(buf, pos, n)
            try:
                meta[bytes(k).decode('utf-8')] = bytes(v)
            except UnicodeDecodeError:
                raise OcfError('metadata key not utf-8')
        if size is not None and size != pos - start:
            raise OcfError('metadata block byte size wrong')
    return meta, pos, nblocks


def parse(buf):
    """structure only: header + block index"""
    if buf[:4] != MAGIC:
        raise OcfError('bad magic')
    try:
        meta, pos, _ = decode_meta(buf, 4)
        sync, pos = take(buf, pos, 16)
    except DecodeError as e:
        raise OcfError('header: %s' % e)
    header_end = pos
    blocks = []
    while pos < len(buf):
        start = pos
        try:
            cnt, pos = dec_long(buf, pos)
            count_end = pos
            size, pos = dec_long(buf, pos)
            size_end = pos
            if cnt < 0 or size < 0:
                raise OcfError('negative block count/size')
            payload, pos = take(buf, pos, size)
            payload_end = pos
            mk, pos = take(buf, pos, 16)
        except DecodeError as e:
            raise OcfError('block %d: %s' % (len(blocks), e))
        if bytes(mk) != bytes(sync):
            raise OcfError('block %d: sync marker mismatch' % len(blocks))
        blocks.append({'count': cnt, 'size': size, 'payload': bytes(payload), 'start': start, 'end': pos,
                       'count_end': count_end, 'size_end': size_end, 'payload_end': payload_end})
    codec = meta.get('avro.codec', b'null')
    try:
        codec = codec.decode('ascii')
    except UnicodeDecodeError:
        raise OcfError('codec name not ascii')
    if codec not in CODECS:
        raise OcfError('unknown codec %r' % codec)
    return {'meta': meta, 'sync': bytes(sync), 'blocks': blocks, 'codec': codec, 'header_end': header_end}


def decompress(codec, payload, zstd=None):
    try:
        if codec == 'null':
            return payload
        if codec == 'deflate':
            d = zlib.decompressobj(-15)      # raw RFC 1951: a zlib/gzip wrapper fails here
            out = d.decompress(payload) + d.flush()
            if not d.eof:
                raise OcfError('deflate stream not terminated')
            if d.unused_data:
                raise OcfError('trailing bytes after deflate stream')
            return out
        if codec == 'bzip2':
            return bz2.decompress(payload)
        if codec == 'xz':
            return lzma.decompress(payload, format=lzma.FORMAT_XZ)
        if codec == 'snappy':
            if len(payload) < 4:
                raise OcfError('snappy block shorter than its CRC')
            body, crc = payload[:-4], payload[-4:]
            out = snappy.decompress(body)
            if zlib.crc32(out).to_bytes(4, 'big') != crc:
                raise OcfError('snappy CRC-32 (big endian, of uncompressed data) mismatch')
            return out
        if codec == 'zstandard':
            if zstd is None:
                raise OcfError('no zstandard reference available')
            return zstd(payload)
    except (zlib.error, OSError, lzma.LZMAError, snappy.SnappyError, ValueError, EOFError) as e:
        raise OcfError('%s payload: %s' % (codec, e))
    raise OcfError('codec %s' % codec)


def compress(codec, data, rng=None, zstd=None):
    if codec == 'null':
        return data
    if codec == 'deflate':
        c = zlib.compressobj(rng.choice([0, 1, 6, 9]) if rng else 6, zlib.DEFLATED, -15)
        return c.compress(data) + c.flush()
    if codec == 'bzip2':
        return bz2.compress(data, rng.choice([1, 9]) if rng else 9)
    if codec == 'xz':
        return lzma.compress(data, format=lzma.FORMAT_XZ, preset=rng.choice([0, 6]) if rng else 6)
    if codec == 'snappy':
        return snappy.compress(data) + zlib.crc32(data).to_bytes(4, 'big')
    if codec == 'zstandard':
        return zstd(data)
    raise ValueError(codec)


def read_values(parsed, node, env, zstd=None):
    out = []
    for i, b in enumerate(parsed['blocks']):
        data = decompress(parsed['codec'], b['payload'], zstd)
        pos = 0
        for _ in range(b['count']):
            try:
                v, pos = avrobin.decode(node, env, data, pos)
            except DecodeError as e:
                raise OcfError('block %d item: %s' % (i, e))
            out.append(v)
        if pos != len(data):
            raise OcfError('block %d: %d payload bytes left after %d items' % (i, len(data) - pos, b['count']))
    return out


def enc_meta(items, layout='single', rng=None):
    """items: list of (key str, value bytes)"""
    out = bytearray()

    def pair(k, v):
        kb = k.encode('utf-8')
        return enc_long(len(kb)) + kb + enc_long(len(v)) + v
    if layout == 'single':
        if items:
            out += enc_long(len(items))
            for k, v in items:
                out += pair(k, v)
    elif layout == 'one-per-block':
        for k, v in items:
            out += enc_long(1) + pair(k, v)
    elif layout == 'negative':
        if items:
            body = b''.join(pair(k, v) for k, v in items)
            out += enc_long(-len(items)) + enc_long(len(body)) + body
    elif layout == 'mixed':
        i = 0
        while i < len(items):
            c = rng.randint(1, len(items) - i)
            body = b''.join(pair(k, v) for k, v in items[i:i + c])
            if rng.random() < 0.5:
                out += enc_long(-c) + enc_long(len(body)) + body
            else:
                out += enc_long(c) + body
            i += c
    out.append(0)
    return bytes(out)


def write(schema_text, node, env, value_blocks, codec='null', sync=b'\x07' * 16, user_meta=(), extra_avro_meta=(),
          meta_layout='single', codec_key=True, rng=None, zstd=None, meta_order=None):
    """value_blocks: list of lists of tagged values (one list per block; empty lists are skipped)"""
    items = [('avro.schema', schema_text.encode('utf-8'))]
    if codec != 'null' or codec_key:
        items.append(('avro.codec', codec.encode()))
    items += list(extra_avro_meta) + list(user_meta)
    if rng is not None and meta_order == 'shuffle':
        rng.shuffle(items)
    out = bytearray(MAGIC)
    out += enc_meta(items, meta_layout, rng)
    out += sync
    for blk in value_blocks:
        if not blk:
            continue
        data = b''.join(avrobin.encode(node, env, v) for v in blk)
        payload = compress(codec, data, rng, zstd)
        out += enc_long(len(blk)) + enc_long(len(payload)) + payload + sync
    return bytes(out)
