"""Reference Avro binary codec over the node model (ref/names.py) and tagged values.

Written from the specification only.  The decoder is strict: negative-count blocks must carry a
byte size equal to the bytes the block's items really occupy; uuid text must be canonical;
booleans must be 0/1; indices must be in range; varints at most 10 bytes.
"""
import struct
from .names import deref


class DecodeError(Exception):
    pass


# ---------------------------------------------------------------- varints
def zigzag(n):
    return ((n << 1) ^ (n >> 63)) & 0xFFFFFFFFFFFFFFFF


def enc_long(n):
    z = zigzag(n)
    out = bytearray()
    while True:
        if z <= 0x7F:
            out.append(z)
            return bytes(out)
        out.append(0x80 | (z & 0x7F))
        z >>= 7


def dec_long(buf, pos):
    z = 0
    shift = 0
    n = 0
    while True:
        if pos >= len(buf):
            raise DecodeError('eof in varint')
        b = buf[pos]
        pos += 1
        n += 1
        z |= (b & 0x7F) << shift
        if not (b & 0x80):
            break
        shift += 7
        if n >= 10:
            raise DecodeError('varint too long')
    if z >> 64:
        raise DecodeError('varint overflows 64 bits')
    v = (z >> 1) ^ -(z & 1)
    return v, pos


def take(buf, pos, n):
    if n < 0 or pos + n > len(buf):
        raise DecodeError('eof')
    return buf[pos:pos + n], pos + n


def hexs(b):
    return bytes(b).hex()


def signed_be(n, length=None):
    """minimal (or fixed-length) big-endian two's complement"""
    if length is None:
        length = 1
        while True:
            try:
                return n.to_bytes(length, 'big', signed=True)
            except OverflowError:
                length += 1
    return n.to_bytes(length, 'big', signed=True)


def dec_value(tv):
    """numeric value of a {"dec": hex} tagged decimal"""
    b = bytes.fromhex(tv['dec'])
    return int.from_bytes(b, 'big', signed=True) if b else 0


# ---------------------------------------------------------------- encoder
def encode(node, env, v, out=None, layout=None):
    """layout: optional callable(kind, n_items) -> list of (count, negative?) block partition"""
    top = out is None
    if top:
        out = bytearray()
    node = deref(node, env)
    k = node['k']
    lg = node.get('logical', {}).get('t')
    if lg == 'decimal':
        b = bytes.fromhex(v['dec'])
        if k == 'fixed':
            n = int.from_bytes(b, 'big', signed=True) if b else 0
            out += signed_be(n, node['size'])
        else:
            out += enc_long(len(b)) + b
    elif lg == 'big-decimal':
        unscaled, scale = int(v['bigdec'][0]), v['bigdec'][1]
        inner = signed_be(unscaled)
        body = enc_long(len(inner)) + inner + enc_long(scale)
        out += enc_long(len(body)) + body
    elif lg == 'uuid':
        raw = bytes.fromhex(v['uuid'])
        if k == 'string':
            h = raw.hex()
            s = '%s-%s-%s-%s-%s' % (h[0:8], h[8:12], h[12:16], h[16:20], h[20:32])
            out += enc_long(36) + s.encode()
        elif k == 'bytes':
            out += enc_long(16) + raw
        else:
            out += raw
    elif lg == 'duration':
        m, d, ms = v['dur']
        out += struct.pack('<III', m, d, ms)
    elif lg in ('date', 'time-millis'):
        out += enc_long(v['date' if lg == 'date' else 'tms'])
    elif lg is not None:
        tag = {'time-micros': 'tus', 'timestamp-millis': 'tsms', 'timestamp-micros': 'tsus',
               'timestamp-nanos': 'tsns', 'local-timestamp-millis': 'ltsms',
               'local-timestamp-micros': 'ltsus', 'local-timestamp-nanos': 'ltsns'}[lg]
        out += enc_long(v[tag])
    elif k == 'null':
        pass
    elif k == 'boolean':
        out.append(1 if v['b'] else 0)
    elif k == 'int':
        out += enc_long(v['i'])
    elif k == 'long':
        out += enc_long(v['l'])
    elif k == 'float':
        out += struct.pack('<I', int(v['f'], 16))
    elif k == 'double':
        out += struct.pack('<Q', int(v['d'], 16))
    elif k == 'bytes':
        b = bytes.fromhex(v['B'])
        out += enc_long(len(b)) + b
    elif k == 'string':
        b = v['s'].encode('utf-8')
        out += enc_long(len(b)) + b
    elif k == 'fixed':
        out += bytes.fromhex(v['F'])
    elif k == 'enum':
        out += enc_long(v['e'][0])
    elif k == 'union':
        i, inner = v['u']
        out += enc_long(i)
        encode(node['branches'][i], env, inner, out, layout)
    elif k == 'record':
        vals = dict((n, x) for n, x in v['r'])
        for f in node['fields']:
            encode(f['type'], env, vals[f['name']], out, layout)
    elif k in ('array', 'map'):
        items = v['a'] if k == 'array' else v['m']
        blocks = layout(k, len(items)) if layout else ([(len(items), False)] if items else [])
        i = 0
        for cnt, neg in blocks:
            body = bytearray()
            for it in items[i:i + cnt]:
                if k == 'array':
                    encode(node['items'], env, it, body, layout)
                else:
                    kb = it[0].encode('utf-8')
                    body += enc_long(len(kb)) + kb
                    encode(node['values'], env, it[1], body, layout)
            i += cnt
            if neg:
                out += enc_long(-cnt) + enc_long(len(body)) + body
            else:
                out += enc_long(cnt) + body
        assert i == len(items)
        out.append(0)
    else:
        raise ValueError('encode: kind %s' % k)
    return bytes(out) if top else None


# ---------------------------------------------------------------- decoder
def decode(node, env, buf, pos=0, depth=0):
    node = deref(node, env)
    k = node['k']
    lg = node.get('logical', {}).get('t')
    if depth > 200:
        raise DecodeError('too deep')
    if lg == 'decimal':
        if k == 'fixed':
            b, pos = take(buf, pos, node['size'])
        else:
            n, pos = dec_long(buf, pos)
            b, pos = take(buf, pos, n)
        return {'dec': hexs(b)}, pos
    if lg == 'big-decimal':
        n, pos = dec_long(buf, pos)
        body, pos = take(buf, pos, n)
        m, p = dec_long(body, 0)
        inner, p = take(body, p, m)
        scale, p = dec_long(body, p)
        if p != len(body):
            raise DecodeError('big-decimal: trailing bytes inside frame')
        if signed_be(int.from_bytes(inner, 'big', signed=True) if inner else 0) != bytes(inner) and len(inner) != 0:
            # non-minimal two's complement is legal; no check
            pass
        return {'bigdec': [str(int.from_bytes(inner, 'big', signed=True) if inner else 0), scale]}, pos
    if lg == 'uuid':
        if k == 'string':
            n, pos = dec_long(buf, pos)
            b, pos = take(buf, pos, n)
            try:
                s = bytes(b).decode('ascii')
            except UnicodeDecodeError:
                raise DecodeError('uuid text not ascii')
            import re
            if not re.match(r'^[0-9a-f]{8}-[0-9a-f]{4}-[0-9a-f]{4}-[0-9a-f]{4}-[0-9a-f]{12}$', s):
                raise DecodeError('uuid text not canonical: %r' % s)
            return {'uuid': s.replace('-', '')}, pos
        if k == 'bytes':
            n, pos = dec_long(buf, pos)
            if n != 16:
                raise DecodeError('uuid bytes length %d' % n)
            b, pos = take(buf, pos, 16)
        else:
            b, pos = take(buf, pos, 16)
        return {'uuid': hexs(b)}, pos
    if lg == 'duration':
        b, pos = take(buf, pos, 12)
        return {'dur': list(struct.unpack('<III', bytes(b)))}, pos
    if lg is not None:
        n, pos = dec_long(buf, pos)
        if lg in ('date', 'time-millis'):
            if not -2 ** 31 <= n < 2 ** 31:
                raise DecodeError('int out of range')
            return {('date' if lg == 'date' else 'tms'): n}, pos
        tag = {'time-micros': 'tus', 'timestamp-millis': 'tsms', 'timestamp-micros': 'tsus',
               'timestamp-nanos': 'tsns', 'local-timestamp-millis': 'ltsms',
               'local-timestamp-micros': 'ltsus', 'local-timestamp-nanos': 'ltsns'}[lg]
        return {tag: n}, pos
    if k == 'null':
        return None, pos
    if k == 'boolean':
        b, pos = take(buf, pos, 1)
        if b[0] > 1:
            raise DecodeError('bad boolean')
        return {'b': bool(b[0])}, pos
    if k == 'int':
        n, pos = dec_long(buf, pos)
        if not -2 ** 31 <= n < 2 ** 31:
            raise DecodeError('int out of range')
        return {'i': n}, pos
    if k == 'long':
        n, pos = dec_long(buf, pos)
        return {'l': n}, pos
    if k == 'float':
        b, pos = take(buf, pos, 4)
        return {'f': '0x%08x' % struct.unpack('<I', bytes(b))[0]}, pos
    if k == 'double':
        b, pos = take(buf, pos, 8)
        return {'d': '0x%016x' % struct.unpack('<Q', bytes(b))[0]}, pos
    if k == 'bytes':
        n, pos = dec_long(buf, pos)
        b, pos = take(buf, pos, n)
        return {'B': hexs(b)}, pos
    if k == 'string':
        n, pos = dec_long(buf, pos)
        b, pos = take(buf, pos, n)
        try:
            return {'s': bytes(b).decode('utf-8')}, pos
        except UnicodeDecodeError:
            raise DecodeError('invalid utf-8')
    if k == 'fixed':
        b, pos = take(buf, pos, node['size'])
        return {'F': hexs(b), 'n': node['size']}, pos
    if k == 'enum':
        n, pos = dec_long(buf, pos)
        if not 0 <= n < len(node['symbols']):
            raise DecodeError('enum index out of range')
        return {'e': [n, node['symbols'][n]]}, pos
    if k == 'union':
        n, pos = dec_long(buf, pos)
        if not 0 <= n < len(node['branches']):
            raise DecodeError('union index out of range')
        v, pos = decode(node['branches'][n], env, buf, pos, depth + 1)
        return {'u': [n, v]}, pos
    if k == 'record':
        out = []
        for f in node['fields']:
            v, pos = decode(f['type'], env, buf, pos, depth + 1)
            out.append([f['name'], v])
        return {'r': out}, pos
    if k in ('array', 'map'):
        items = []
        while True:
            cnt, pos = dec_long(buf, pos)
            if cnt == 0:
                break
            size = None
            if cnt < 0:
                cnt = -cnt
                size, pos = dec_long(buf, pos)
            start = pos
            for _ in range(cnt):
                if k == 'array':
                    v, pos = decode(node['items'], env, buf, pos, depth + 1)
                    items.append(v)
                else:
                    n, pos = dec_long(buf, pos)
                    kb, pos = take(buf, pos, n)
                    try:
                        key = bytes(kb).decode('utf-8')
                    except UnicodeDecodeError:
                        raise DecodeError('map key utf-8')
                    v, pos = decode(node['values'], env, buf, pos, depth + 1)
                    items.append([key, v])
            if size is not None and size != pos - start:
                raise DecodeError('block byte size %d != actual %d' % (size, pos - start))
        if k == 'array':
            return {'a': items}, pos
        d = {}
        for key, v in items:
            d[key] = v          # later entries win (as every implementation does)
        return {'m': sorted(([kk, vv] for kk, vv in d.items()), key=lambda kv: kv[0])}, pos
    raise ValueError('decode: kind %s' % k)


def decode_all(node, env, buf):
    v, pos = decode(node, env, buf, 0)
    if pos != len(buf):
        raise DecodeError('trailing bytes: consumed %d of %d' % (pos, len(buf)))
    return v


# ---------------------------------------------------------------- comparison
def veq(a, b):
    """tagged value equality: floats by bits (they are strings), decimals numerically, maps unordered"""
    if type(a) != type(b):
        return False
    if isinstance(a, dict):
        if set(a.keys()) - {'n'} != set(b.keys()) - {'n'}:
            return False
        if 'dec' in a:
            return dec_value(a) == dec_value(b)
        if 'bigdec' in a:
            return int(a['bigdec'][0]) == int(b['bigdec'][0]) and a['bigdec'][1] == b['bigdec'][1]
        if 'm' in a:
            da = dict((k, v) for k, v in a['m'])
            db = dict((k, v) for k, v in b['m'])
            return da.keys() == db.keys() and all(veq(da[k], db[k]) for k in da)
        if 'F' in a:
            return a['F'] == b['F']
        return all(veq(a[k], b[k]) for k in a if k != 'n')
    if isinstance(a, list):
        return len(a) == len(b) and all(veq(x, y) for x, y in zip(a, b))
    return a == b
