"""Schema resolution per the specification, over the reference node model.

resolve(W, Wenv, R, Renv, v) -> list of admissible results (tagged values in R's canonical form).
Raises NoResult when the rules give no result (the reader must report an error).
The result is a LIST where the text leaves a choice (reader-union branch: the spec says "first
matching", the Java reference implementation prefers an exact type match, then the first
promotable one -- both are admitted)."""
import struct

from .names import deref


class NoResult(Exception):
    def __init__(self, reason='no-result'):
        Exception.__init__(self, reason)
        self.reason = reason


PROMOTE = {('int', 'long'), ('int', 'float'), ('int', 'double'), ('long', 'float'), ('long', 'double'),
           ('float', 'double'), ('string', 'bytes'), ('bytes', 'string')}

LONG_TAGS = {'time-micros': 'tus', 'timestamp-millis': 'tsms', 'timestamp-micros': 'tsus', 'timestamp-nanos': 'tsns',
             'local-timestamp-millis': 'ltsms', 'local-timestamp-micros': 'ltsus', 'local-timestamp-nanos': 'ltsns'}
INT_TAGS = {'date': 'date', 'time-millis': 'tms'}


def unq(full):
    return full.rpartition('.')[2]


def names_match(w, r):
    if unq(w['full']) == unq(r['full']):
        return True
    for a in r.get('aliases') or []:
        if a == w['full'] or unq(a) == unq(w['full']):
            return True
    return False


def lg(n):
    return n.get('logical', {}).get('t')


def kname(n):
    return lg(n) or n['k']


def matches(w, wenv, r, renv, depth=0):
    """the spec's 'match' relation between a writer and a reader schema (shallow, as the spec defines it)"""
    w = deref(w, wenv)
    r = deref(r, renv)
    wk, rk = w['k'], r['k']
    if wk == 'union' or rk == 'union':
        return False
    if wk in ('record', 'enum'):
        return rk == wk and names_match(w, r)
    if wk == 'fixed':
        return rk == 'fixed' and names_match(w, r) and w['size'] == r['size']
    if wk == 'array':
        return rk == 'array' and (depth > 3 or matches_any(w['items'], wenv, r['items'], renv, depth + 1))
    if wk == 'map':
        return rk == 'map' and (depth > 3 or matches_any(w['values'], wenv, r['values'], renv, depth + 1))
    return wk == rk or (wk, rk) in PROMOTE


def matches_any(w, wenv, r, renv, depth):
    """like matches, but unions on either side match when some pairing does"""
    wd, rd = deref(w, wenv), deref(r, renv)
    if wd['k'] == 'union':
        return any(matches_any(b, wenv, r, renv, depth) for b in wd['branches'])
    if rd['k'] == 'union':
        return any(matches_any(w, wenv, b, renv, depth) for b in rd['branches'])
    return matches(w, wenv, r, renv, depth)


def exact(w, wenv, r, renv):
    w = deref(w, wenv)
    r = deref(r, renv)
    return w['k'] == r['k'] and matches(w, wenv, r, renv)


def num_of(v):
    for k in ('i', 'l', 'date', 'tms') + tuple(LONG_TAGS.values()):
        if isinstance(v, dict) and k in v:
            return v[k]
    return None


def f32_bits(x):
    try:
        return struct.unpack('<I', struct.pack('<f', x))[0]
    except OverflowError:
        return 0x7f800000 if x > 0 else 0xff800000


def f64_bits(x):
    return struct.unpack('<Q', struct.pack('<d', x))[0]


def to_reader_prim(v, w, r):
    """value of primitive writer kind in reader's canonical form (incl. reader logical type)"""
    wk, rk = w['k'], r['k']
    rl = lg(r)
    if rk in ('int', 'long'):
        n = num_of(v)
        if n is None:
            raise NoResult()
        if rl in INT_TAGS:
            return {INT_TAGS[rl]: n}
        if rl in LONG_TAGS:
            return {LONG_TAGS[rl]: n}
        return {'i' if rk == 'int' else 'l': n}
    if rk == 'float':
        if wk == 'float':
            return {'f': v['f']}
        n = num_of(v)
        return {'f': '0x%08x' % f32_bits(float(n))} if n is not None else _nores()
    if rk == 'double':
        if wk == 'double':
            return {'d': v['d']}
        if wk == 'float':
            x = struct.unpack('<f', struct.pack('<I', int(v['f'], 16)))[0]
            return {'d': '0x%016x' % f64_bits(x)}
        n = num_of(v)
        return {'d': '0x%016x' % f64_bits(float(n))} if n is not None else _nores()
    if rk == 'bytes':
        if rl:
            raise Ambiguous()
        if wk == 'bytes':
            return {'B': raw_bytes(v)}
        if wk == 'string':
            return {'B': v['s'].encode('utf-8').hex()}
    if rk == 'string':
        if rl:
            raise Ambiguous()
        if wk == 'string':
            return {'s': v['s']}
        if wk == 'bytes':
            try:
                return {'s': bytes.fromhex(raw_bytes(v)).decode('utf-8')}
            except UnicodeDecodeError:
                raise NoResult('bytes-not-utf8')
    if rk == 'null':
        return None
    if rk == 'boolean':
        return {'b': v['b']}
    raise NoResult()


class Ambiguous(Exception):
    """the rules are not specific enough here; the case is skipped, never judged"""


def _nores():
    raise NoResult()


def raw_bytes(v):
    for k in ('B', 'dec', 'uuid'):
        if k in v:
            return v[k]
    raise Ambiguous()


def default_value(j, node, env, depth=0):
    """JSON default -> value in the schema's canonical form (spec's default table; union: first branch)"""
    try:
        return _default_value(j, node, env, depth)
    except (TypeError, ValueError, AttributeError, KeyError):
        raise Ambiguous()       # default does not fit its (evolved) type: not judged


def _default_value(j, node, env, depth=0):
    node = deref(node, env)
    k = node['k']
    l = lg(node)
    if k == 'union':
        return {'u': [0, default_value(j, node['branches'][0], env, depth + 1)]}
    if l:
        if l in INT_TAGS:
            return {INT_TAGS[l]: j}
        if l in LONG_TAGS:
            return {LONG_TAGS[l]: j}
        raise Ambiguous()
    if k == 'null':
        return None
    if k == 'boolean':
        return {'b': j}
    if k == 'int':
        return {'i': j}
    if k == 'long':
        return {'l': j}
    if k == 'float':
        return {'f': '0x%08x' % f32_bits(float(j))}
    if k == 'double':
        return {'d': '0x%016x' % f64_bits(float(j))}
    if k == 'string':
        return {'s': j}
    if k == 'bytes':
        return {'B': bytes(ord(c) for c in j).hex()}
    if k == 'fixed':
        return {'F': bytes(ord(c) for c in j).hex(), 'n': node['size']}
    if k == 'enum':
        return {'e': [node['symbols'].index(j), j]}
    if k == 'array':
        return {'a': [default_value(x, node['items'], env, depth + 1) for x in j]}
    if k == 'map':
        return {'m': sorted([[kk, default_value(x, node['values'], env, depth + 1)] for kk, x in j.items()], key=lambda p: p[0])}
    if k == 'record':
        out = []
        for f in node['fields']:
            if f['name'] in j:
                out.append([f['name'], default_value(j[f['name']], f['type'], env, depth + 1)])
            elif f['has_default']:
                out.append([f['name'], default_value(f['default'], f['type'], env, depth + 1)])
            else:
                raise NoResult()
        return {'r': out}
    raise Ambiguous()


def resolve(w, wenv, r, renv, v, depth=0):
    """list of admissible results"""
    w = deref(w, wenv)
    r = deref(r, renv)
    wk, rk = w['k'], r['k']
    if depth > 40:
        raise Ambiguous()
    if wk == 'union':
        i, inner = v['u']
        return resolve(w['branches'][i], wenv, r, renv, inner, depth + 1)
    if rk == 'union':
        cands = [i for i, b in enumerate(r['branches']) if deref(b, renv)['k'] != 'union' and matches(w, wenv, b, renv)]
        if not cands:
            raise NoResult('no-reader-union-branch-matches:%s' % kname(w))
        picks = [cands[0]]
        ex = [i for i in cands if exact(w, wenv, r['branches'][i], renv)]
        if ex and ex[0] not in picks:
            picks.append(ex[0])
        out = []
        err = None
        for i in picks:
            try:
                out += [{'u': [i, x]} for x in resolve(w, wenv, r['branches'][i], renv, v, depth + 1)]
            except NoResult as e:
                err = e
        if not out:
            raise err or NoResult()
        return out
    if not matches(w, wenv, r, renv):
        if wk == rk and wk in ('record', 'enum', 'fixed'):
            raise NoResult('named-types-do-not-match:%s' % wk)
        raise NoResult('no-promotion:%s->%s' % (kname(w), kname(r)))
    if lg(w) in ('decimal', 'big-decimal', 'uuid', 'duration') or lg(r) in ('decimal', 'big-decimal', 'uuid', 'duration'):
        if lg(w) == lg(r) and w.get('logical') == r.get('logical') and wk == rk:
            return [v]
        raise Ambiguous()
    if wk == 'record':
        wvals = dict((n, x) for n, x in v['r'])
        wfields = dict((f['name'], f) for f in w['fields'])
        out = [[]]
        for rf in r['fields']:
            src = None
            if rf['name'] in wfields:
                src = rf['name']
            else:
                for a in rf.get('aliases') or []:
                    if a in wfields:
                        src = a
                        break
            if src is not None:
                alts = resolve(wfields[src]['type'], wenv, rf['type'], renv, wvals[src], depth + 1)
            elif rf['has_default']:
                alts = [default_value(rf['default'], rf['type'], renv)]
            else:
                raise NoResult('reader-field-without-default')
            out = [o + [[rf['name'], a]] for o in out for a in alts][:4]
        return [{'r': o} for o in out]
    if wk == 'enum':
        sym = v['e'][1]
        if sym in r['symbols']:
            return [{'e': [r['symbols'].index(sym), sym]}]
        if r.get('default') is not None:
            d = r['default']
            return [{'e': [r['symbols'].index(d), d]}]
        raise NoResult('enum-symbol-unknown-to-reader-without-default')
    if wk == 'fixed':
        return [{'F': v['F'], 'n': r['size']}]
    if wk == 'array':
        out = []
        for x in v['a']:
            out.append(resolve(w['items'], wenv, r['items'], renv, x, depth + 1)[0])
        return [{'a': out}]
    if wk == 'map':
        out = []
        for kk, x in v['m']:
            out.append([kk, resolve(w['values'], wenv, r['values'], renv, x, depth + 1)[0]])
        return [{'m': sorted(out, key=lambda p: p[0])}]
    return [to_reader_prim(v, w, r)]
