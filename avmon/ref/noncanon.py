"""canon(v, schema): the set of canonical values (what a decoder returns for the schema) that an
accepted, possibly non-canonical, value v denotes -- "the union branch, enum symbol index, record
field order or widened number that validation matched it against".  Empty list = v is not a
spelling of any value of the schema (as far as this model knows)."""
import struct

from .names import deref

INT_LIKE = {'date': 'date', 'time-millis': 'tms'}
LONG_LIKE = {'time-micros': 'tus', 'timestamp-millis': 'tsms', 'timestamp-micros': 'tsus', 'timestamp-nanos': 'tsns',
             'local-timestamp-millis': 'ltsms', 'local-timestamp-micros': 'ltsus', 'local-timestamp-nanos': 'ltsns'}


def tag(v):
    if v is None:
        return 'null'
    for k in v:
        if k != 'n':
            return k
    return '?'


def f32_to_f64_bits(bits32):
    x = struct.unpack('<f', struct.pack('<I', bits32))[0]
    return struct.unpack('<Q', struct.pack('<d', x))[0]


def canon(v, node, env, depth=0):
    node = deref(node, env)
    k = node['k']
    lg = node.get('logical', {}).get('t')
    t = tag(v)
    if depth > 64:
        return []
    if k == 'union':
        out = []
        if t == 'u':
            i, inner = v['u']
            if 0 <= i < len(node['branches']):
                out += [{'u': [i, c]} for c in canon(inner, node['branches'][i], env, depth + 1)]
            return out
        for i, b in enumerate(node['branches']):
            out += [{'u': [i, c]} for c in canon(v, b, env, depth + 1)]
        return out
    if lg in INT_LIKE:
        if t in ('i', INT_LIKE[lg]):
            return [{INT_LIKE[lg]: v[t]}]
        return []
    if lg in LONG_LIKE:
        if t in ('l', LONG_LIKE[lg]):
            return [{LONG_LIKE[lg]: v[t]}]
        return []
    if lg == 'decimal':
        if t == 'dec':
            return [v]
        if t == 'B':
            return [{'dec': v['B']}] if k == 'bytes' or len(v['B']) // 2 == node['size'] else []
        if t == 'F':
            return [{'dec': v['F']}] if k == 'bytes' or len(v['F']) // 2 == node['size'] else []
        return []
    if lg == 'big-decimal':
        return [v] if t == 'bigdec' else []
    if lg == 'uuid':
        if t == 'uuid':
            return [v]
        if t in ('B', 'F') and len(v[t]) == 32 and k in ('bytes', 'fixed'):
            return [{'uuid': v[t]}]
        if t == 's' and k == 'string':
            s = v['s'].replace('-', '').lower()
            import re
            if re.match(r'^[0-9a-f]{32}$', s) and (len(v['s']) == 32 or re.match(r'^[0-9a-fA-F]{8}-[0-9a-fA-F]{4}-[0-9a-fA-F]{4}-[0-9a-fA-F]{4}-[0-9a-fA-F]{12}$', v['s'])):
                return [{'uuid': s}]
        return []
    if lg == 'duration':
        if t == 'dur':
            return [v]
        if t == 'F' and len(v['F']) == 24:
            return [{'dur': list(struct.unpack('<III', bytes.fromhex(v['F'])))}]
        return []
    if k == 'null':
        return [None] if v is None else []
    if k == 'boolean':
        return [v] if t == 'b' else []
    if k == 'int':
        return [v] if t == 'i' else []
    if k == 'long':
        if t == 'l':
            return [v]
        if t == 'i':
            return [{'l': v['i']}]
        return []
    if k == 'float':
        return [v] if t == 'f' else []
    if k == 'double':
        if t == 'd':
            return [v]
        if t == 'f':
            return [{'d': '0x%016x' % f32_to_f64_bits(int(v['f'], 16))}]
        return []
    if k == 'bytes':
        return [v] if t == 'B' else []
    if k == 'string':
        return [v] if t == 's' else []
    if k == 'fixed':
        if t == 'F' and len(v['F']) // 2 == node['size']:
            return [{'F': v['F'], 'n': node['size']}]
        if t == 'B' and len(v['B']) // 2 == node['size']:
            return [{'F': v['B'], 'n': node['size']}]
        return []
    if k == 'enum':
        if t == 'e':
            i, s = v['e']
            if 0 <= i < len(node['symbols']) and node['symbols'][i] == s:
                return [v]
            return []
        if t == 's' and v['s'] in node['symbols']:
            return [{'e': [node['symbols'].index(v['s']), v['s']]}]
        return []
    if k == 'array':
        if t != 'a':
            return []
        out = []
        for x in v['a']:
            cs = canon(x, node['items'], env, depth + 1)
            if not cs:
                return []
            out.append(cs[0])        # items: first admissible reading
        return [{'a': out}]
    if k == 'map':
        if t != 'm':
            return []
        out = []
        for kk, x in v['m']:
            cs = canon(x, node['values'], env, depth + 1)
            if not cs:
                return []
            out.append([kk, cs[0]])
        return [{'m': sorted(out, key=lambda p: p[0])}]
    if k == 'record':
        if t not in ('r', 'm'):
            return []
        given = dict((n, x) for n, x in v[t])
        if t == 'r' and (len(given) != len(v['r']) or any(n not in [f['name'] for f in node['fields']] for n in given)):
            return []
        out = []
        for f in node['fields']:
            if f['name'] in given:
                cs = canon(given[f['name']], f['type'], env, depth + 1)
                if not cs:
                    return []
                out.append([f['name'], cs[0]])
            else:
                # an omitted field can only stand for the null branch of a nullable (null-first) union
                ft = deref(f['type'], env)
                if ft['k'] == 'union' and ft['branches'] and deref(ft['branches'][0], env)['k'] == 'null':
                    out.append([f['name'], {'u': [0, None]}])
                else:
                    return []
        return [{'r': out}]
    return []
