"""Parsing Canonical Form per the specification, computed from the reference node model."""
import json
from . import names


def q(s):
    # names, symbols and field names are restricted to [A-Za-z0-9_.]; json.dumps is exact for them
    return json.dumps(s, ensure_ascii=False)


def pcf_node(node, seen):
    k = node['k']
    if k == 'ref':
        return q(node['full'])
    if k in names.PRIMS:
        return q(k)
    if k == 'array':
        return '{"type":"array","items":%s}' % pcf_node(node['items'], seen)
    if k == 'map':
        return '{"type":"map","values":%s}' % pcf_node(node['values'], seen)
    if k == 'union':
        return '[%s]' % ','.join(pcf_node(b, seen) for b in node['branches'])
    if node['full'] in seen:
        return q(node['full'])
    seen.add(node['full'])
    if k == 'record':
        fs = ','.join('{"name":%s,"type":%s}' % (q(f['name']), pcf_node(f['type'], seen)) for f in node['fields'])
        return '{"name":%s,"type":"record","fields":[%s]}' % (q(node['full']), fs)
    if k == 'enum':
        return '{"name":%s,"type":"enum","symbols":[%s]}' % (q(node['full']), ','.join(q(s) for s in node['symbols']))
    if k == 'fixed':
        return '{"name":%s,"type":"fixed","size":%d}' % (q(node['full']), node['size'])
    raise ValueError(k)


def pcf(schema_json):
    node, env = names.parse(schema_json)
    return pcf_node(node, set())
