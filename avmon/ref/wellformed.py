"""Well-formedness of an ACCEPTED schema, judged on the harness's structural dump of the
library's Schema value (what the parser actually produced), per the specification's rules."""
import re

NAME_RE = re.compile(r'^[A-Za-z_][A-Za-z0-9_]*$')
PRIMS = ('null', 'boolean', 'int', 'long', 'float', 'double', 'bytes', 'string')
LOGICAL_BASE = {'date': 'int', 'time-millis': 'int', 'big-decimal': 'bytes'}


def full_of(n):
    return (n['ns'] + '.' + n['name']) if n.get('ns') else n['name']


def base_kind(d):
    k = d['k']
    if k in ('decimal', 'uuid', 'duration'):
        return d['inner']['k']
    if k in PRIMS or k in ('array', 'map', 'union', 'record', 'enum', 'fixed', 'ref'):
        return k
    return LOGICAL_BASE.get(k, 'long')


NEAR_MISSES = ('fixed-length', 'enum-not-symbol(enum-has-default)', 'bytes-codepoint-above-255', 'fixed-codepoint-above-255',
               'bytes-given-as-int-array', 'fixed-given-as-int-array')


def check(dump, known_names=()):
    """returns a list of violated rule codes (empty = well formed)"""
    bad = []
    defs = {}

    def check_name(n, what):
        if not NAME_RE.match(n.get('name') or ''):
            bad.append('%s-name-grammar' % what)
        ns = n.get('ns')
        if ns is not None:
            if ns == '' or not all(NAME_RE.match(p) for p in ns.split('.')):
                bad.append('%s-namespace-grammar' % what)

    def collect(d):
        k = d['k']
        if k in ('decimal', 'uuid', 'duration'):
            if d['inner']['k'] == 'fixed':
                collect(d['inner'])
            return
        if k in ('record', 'enum', 'fixed'):
            check_name(d['name'], k)
            f = full_of(d['name'])
            if f in defs:
                bad.append('duplicate-definition')
            defs[f] = d
            for a in d.get('aliases') or []:
                check_name(a, 'alias')
        if k == 'record':
            if not d.get('lookup_ok', True):
                bad.append('record-lookup-table-inconsistent')
            seen = set()
            for f in d['fields']:
                if not NAME_RE.match(f['name']):
                    bad.append('field-name-grammar')
                if f['name'] in seen:
                    bad.append('duplicate-field')
                seen.add(f['name'])
                collect(f['schema'])
        elif k == 'enum':
            if len(set(d['symbols'])) != len(d['symbols']):
                bad.append('duplicate-symbol')
            for s in d['symbols']:
                if not NAME_RE.match(s):
                    bad.append('symbol-grammar')
            if d.get('default') is not None and d['default'] not in d['symbols']:
                bad.append('enum-default-not-symbol')
        elif k == 'array':
            collect(d['items'])
        elif k == 'map':
            collect(d['values'])
        elif k == 'union':
            for b in d['branches']:
                collect(b)

    collect(dump)

    def resolve(d):
        hops = 0
        while d['k'] == 'ref' and hops < 50:
            f = full_of(d['name'])
            if f not in defs:
                return None
            d = defs[f]
            hops += 1
        return d

    def second(d):
        k = d['k']
        if k == 'ref':
            f = full_of(d['name'])
            if f not in defs and f not in known_names:
                bad.append('unresolved-reference')
        elif k == 'array':
            second(d['items'])
        elif k == 'map':
            second(d['values'])
        elif k == 'union':
            seen = set()
            for b in d['branches']:
                if b['k'] == 'union':
                    bad.append('nested-union')
                bk = base_kind(b)
                key = ('named:' + full_of(b['name'] if bk != 'fixed' or b['k'] == 'fixed' else b['inner']['name'])) if bk in ('record', 'enum', 'fixed', 'ref') else bk
                if key in seen:
                    bad.append('duplicate-union-branch')
                seen.add(key)
                second(b)
        elif k == 'record':
            for f in d['fields']:
                second(f['schema'])
                if f['has_default']:
                    why = conforms(f['default'], f['schema'], 0)
                    if why:
                        bad.append('default-does-not-conform why=%s' % why)

    def conforms(j, d, depth):
        """None if the JSON default j conforms to schema d, else an input-independent reason"""
        if depth > 40:
            return None
        d = resolve(d)
        if d is None:
            return None          # unresolved: reported separately
        k = base_kind(d)
        if k == 'null':
            return None if j is None else 'null-not-null'
        if k == 'boolean':
            return None if isinstance(j, bool) else 'boolean-not-boolean'
        if k in ('int', 'long'):
            lo, hi = (-2 ** 31, 2 ** 31 - 1) if k == 'int' else (-2 ** 63, 2 ** 63 - 1)
            if isinstance(j, bool) or not isinstance(j, int):
                return '%s-not-integer' % k
            return None if lo <= j <= hi else '%s-out-of-range' % k
        if k in ('float', 'double'):
            return None if isinstance(j, (int, float)) and not isinstance(j, bool) else '%s-not-number' % k
        if k == 'string':
            return None if isinstance(j, str) else 'string-not-string'
        if k == 'bytes':
            if isinstance(j, list) and all(isinstance(x, int) and not isinstance(x, bool) and 0 <= x <= 255 for x in j):
                return 'bytes-given-as-int-array'
            if not isinstance(j, str):
                return 'bytes-not-string'
            return None if all(ord(c) <= 255 for c in j) else 'bytes-codepoint-above-255'
        if k == 'fixed':
            fx = d if d['k'] == 'fixed' else d['inner']
            if isinstance(j, list) and all(isinstance(x, int) and not isinstance(x, bool) and 0 <= x <= 255 for x in j):
                return 'fixed-given-as-int-array'
            if not isinstance(j, str):
                return 'fixed-not-string'
            if not all(ord(c) <= 255 for c in j):
                return 'fixed-codepoint-above-255'
            return None if len(j) == fx['size'] else 'fixed-length'
        if k == 'enum':
            if isinstance(j, str) and j in d['symbols']:
                return None
            return 'enum-not-symbol' + ('(enum-has-default)' if d.get('default') is not None and isinstance(j, str) else '')
        if k == 'array':
            if not isinstance(j, list):
                return 'array-not-list'
            for x in j:
                r = conforms(x, d['items'], depth + 1)
                if r:
                    return r
            return None
        if k == 'map':
            if not isinstance(j, dict):
                return 'map-not-object'
            for x in j.values():
                r = conforms(x, d['values'], depth + 1)
                if r:
                    return r
            return None
        if k == 'union':
            # weaker of the two published readings: conform to SOME branch
            first, near = None, None
            for b in d['branches']:
                r = conforms(j, b, depth + 1)
                if r is None:
                    return None
                first = first or r
                if near is None and r in NEAR_MISSES:
                    near = r
                elif near is None and r.startswith('union-no-branch:near='):
                    near = r[len('union-no-branch:near='):]        # a near miss inside a nested record/array default
            # a default that conforms to no branch: name the branch reason that comes closest (the near misses below are the
            # ones a value-driven check lets through), else the first branch's reason
            return 'union-no-branch:near=%s' % near if near else 'union-no-branch:first=%s' % (first or 'empty')
        if k == 'record':
            if not isinstance(j, dict):
                return 'record-not-object'
            for f in d['fields']:
                if f['name'] in j:
                    r = conforms(j[f['name']], f['schema'], depth + 1)
                    if r:
                        return r
                elif not f['has_default']:
                    return 'record-field-missing'
            return None
        return None

    second(dump)
    return sorted(set(bad))
