"""Sanitizer runs for the thorough tier: Miri (UB / leaks / data races, many scheduler seeds),
ThreadSanitizer (-Zbuild-std), valgrind memcheck. Each is its own build; a clean run is reported
as "no report on N executions", never as memory safety."""
import json
import os
import re
import subprocess

from . import driver

MIRI_TARGET = os.path.join(driver.VERIF, 'target', 'miri-build')
TSAN_TARGET = os.path.join(driver.VERIF, 'target', 'tsan-build')


def _env(extra=None):
    e = dict(os.environ, CARGO_NET_OFFLINE='true', CARGO_TERM_COLOR='never')
    e.update(extra or {})
    return e


def miri_exec(run, script_lines, tag, timeout=3000, flags=''):
    """runs one op script under Miri; returns (events dict, report or None)"""
    sp = os.path.join(run.workdir, 'miri-%s.jsonl' % tag)
    ep = os.path.join(run.workdir, 'miri-%s.events' % tag)
    with open(sp, 'w') as f:
        for op in script_lines:
            f.write(json.dumps(op) + '\n')
    cmd = ['cargo', '+nightly', 'miri', 'run', '--offline', '-q', '-p', 'avmon-exec', '--no-default-features', '--features', 'hooks', '--', 'exec', sp, ep]
    env = _env({'MIRIFLAGS': '-Zmiri-disable-isolation ' + flags, 'CARGO_TARGET_DIR': MIRI_TARGET})
    try:
        p = subprocess.run(cmd, cwd=driver.HARNESS, env=env, stdout=subprocess.PIPE, stderr=subprocess.PIPE, timeout=timeout)
    except subprocess.TimeoutExpired:
        return {}, 'timeout'
    events = {}
    if os.path.exists(ep):
        for line in open(ep):
            try:
                ev = json.loads(line)
            except ValueError:
                continue
            if 'call' not in ev:
                events[ev.get('id')] = ev
    err = p.stderr.decode('utf-8', 'replace')
    report = None
    m = re.search(r'(error: Undefined Behavior.*?|error: memory leaked.*?|error: unsupported operation.*?|error: .*?data race.*?)(?:\n\n|\Z)', err, re.S)
    if m:
        report = m.group(1)[:1500]
    elif p.returncode != 0 and 'error: could not compile' in err:
        report = 'build-failed: ' + err[-500:]
    elif p.returncode != 0:
        report = 'rc=%d: %s' % (p.returncode, err[-800:])
    return events, report


def miri_race(run, plan, seeds='0..8', timeout=3000):
    pp = os.path.join(run.workdir, 'miri-race-plan.json')
    with open(pp, 'w') as f:
        json.dump(plan, f)
    cmd = ['cargo', '+nightly', 'miri', 'run', '--offline', '-q', '-p', 'avmon-exec', '--no-default-features', '--features', 'hooks', '--', 'race', pp]
    env = _env({'MIRIFLAGS': '-Zmiri-disable-isolation -Zmiri-many-seeds=%s' % seeds, 'CARGO_TARGET_DIR': MIRI_TARGET})
    try:
        p = subprocess.run(cmd, cwd=driver.HARNESS, env=env, stdout=subprocess.PIPE, stderr=subprocess.PIPE, timeout=timeout)
    except subprocess.TimeoutExpired:
        return [], 'timeout'
    outs = []
    for line in p.stdout.decode('utf-8', 'replace').splitlines():
        try:
            outs.append(json.loads(line))
        except ValueError:
            pass
    err = p.stderr.decode('utf-8', 'replace')
    report = None
    m = re.search(r'(error: Undefined Behavior.*?|error: .*?[Dd]ata race.*?)(?:\n\n|\Z)', err, re.S)
    if m:
        report = m.group(1)[:1500]
    elif p.returncode != 0 and not outs:
        report = 'rc=%d: %s' % (p.returncode, err[-800:])
    return outs, report


def tsan_build(run):
    env = _env({'RUSTFLAGS': '-Zsanitizer=thread', 'CARGO_TARGET_DIR': TSAN_TARGET})
    cmd = ['cargo', '+nightly', 'build', '--offline', '-q', '-Zbuild-std', '--target', 'x86_64-unknown-linux-gnu', '-p', 'avmon-exec', '--no-default-features', '--features', 'hooks']
    p = subprocess.run(cmd, cwd=driver.HARNESS, env=env, stdout=subprocess.PIPE, stderr=subprocess.STDOUT)
    if p.returncode != 0:
        return None, p.stdout.decode('utf-8', 'replace')[-800:]
    return os.path.join(TSAN_TARGET, 'x86_64-unknown-linux-gnu', 'debug', 'avmon-exec'), None


def tsan_race(run, binary, plan, idx):
    pp = os.path.join(run.workdir, 'tsan-plan-%d.json' % idx)
    with open(pp, 'w') as f:
        json.dump(plan, f)
    p = subprocess.run([binary, 'race', pp], stdout=subprocess.PIPE, stderr=subprocess.PIPE, env=dict(os.environ, TSAN_OPTIONS='halt_on_error=0 exitcode=66'), timeout=600)
    err = p.stderr.decode('utf-8', 'replace')
    reports = re.findall(r'WARNING: ThreadSanitizer: (.*?)\n(.*?)(?:={10,}|\Z)', err, re.S)
    return p.returncode, [(k, body[:1200]) for k, body in reports]


def memcheck(run, script_lines, tag, timeout=3000):
    sp = os.path.join(run.workdir, 'vg-%s.jsonl' % tag)
    ep = os.path.join(run.workdir, 'vg-%s.events' % tag)
    with open(sp, 'w') as f:
        for op in script_lines:
            f.write(json.dumps(op) + '\n')
    cmd = ['valgrind', '--tool=memcheck', '--error-exitcode=77', '--leak-check=no', '-q', driver.EXEC_BIN, 'exec', sp, ep]
    try:
        p = subprocess.run(cmd, stdout=subprocess.PIPE, stderr=subprocess.PIPE, timeout=timeout)
    except subprocess.TimeoutExpired:
        return None, 'timeout'
    err = p.stderr.decode('utf-8', 'replace')
    blocks = re.findall(r'==\d+== (Invalid (?:read|write).*?|Conditional jump.*?|Use of uninitialised.*?|Invalid free.*?)\n((?:==\d+==.*\n){1,12})', err)
    return p.returncode, [(k, body[:1000]) for k, body in blocks]
