"""Sanitizer runs for the thorough tier: Miri (UB / leaks / data races, many scheduler seeds),
ThreadSanitizer (-Zbuild-std), valgrind memcheck. Each is its own build; a clean run is reported
as "no report on N executions", never as memory safety."""
import json
import os
import re
import subprocess

from . import driver

MIRI_TARGET = os.path.join(driver.TARGET, 'miri-build')
TSAN_TARGET = os.path.join(driver.TARGET, 'tsan-build')


def _env(extra=None):
    e = dict(os.environ, CARGO_NET_OFFLINE='true', CARGO_TERM_COLOR='never')
    e.update(extra or {})
    return e


def miri_exec(run, script_lines, tag, timeout=3000, flags=''):
    """runs one op script under Miri; returns (events dict, report or None)"""
    sp = os.path.join(run.workdir, 'miri-%s.jsonl' % tag)
    ep = os.path.join(run.workdir, 'miri-%s.events' % tag)
    with open(sp, 'w') as f:
        for op in script_lines:
            f.write(json.dumps(op) + '\n')
    cmd = ['cargo', '+nightly', 'miri', 'run', '--offline', '-q', '-p', 'avmon-exec', '--no-default-features', '--features', 'hooks', '--', 'exec', sp, ep]
    env = _env({'MIRIFLAGS': '-Zmiri-disable-isolation ' + flags, 'CARGO_TARGET_DIR': MIRI_TARGET})
    try:
        p = subprocess.run(cmd, cwd=driver.HARNESS, env=env, stdout=subprocess.PIPE, stderr=subprocess.PIPE, timeout=timeout)
    except subprocess.TimeoutExpired:
        return {}, 'timeout'
    events = {}
    if os.path.exists(ep):
        for line in open(ep):
            try:
                ev = json.loads(line)
            except ValueError:
                continue
            if 'call' not in ev:
                events[ev.get('id')] = ev
    err = p.stderr.decode('utf-8', 'replace')
    report = None
    m = re.search(r'(error: Undefined Behavior.*?|error: memory leaked.*?|error: unsupported operation.*?|error: .*?data race.*?)(?:\n\n|\Z)', err, re.S)
    if m:
        report = m.group(1)[:1500]
    elif p.returncode != 0 and 'error: could not compile' in err:
        report = 'build-failed: ' + err[-500:]
    elif p.returncode != 0:
        report = 'rc=%d: %s' % (p.returncode, err[-800:])
    return events, report


def miri_race(run, plan, seeds='0..8', timeout=3000):
    pp = os.path.join(run.workdir, 'miri-race-plan.json')
    od = os.path.join(run.workdir, 'out')
    os.makedirs(od, exist_ok=True)
    with open(pp, 'w') as f:
        json.dump(plan, f)
    cmd = ['cargo', '+nightly', 'miri', 'run', '--offline', '-q', '-p', 'avmon-exec', '--no-default-features', '--features', 'hooks', '--', 'race', pp, od]
    env = _env({'MIRIFLAGS': '-Zmiri-disable-isolation -Zmiri-many-seeds=%s' % seeds, 'CARGO_TARGET_DIR': MIRI_TARGET})
    try:
        p = subprocess.run(cmd, cwd=driver.HARNESS, env=env, stdout=subprocess.PIPE, stderr=subprocess.PIPE, timeout=timeout)
    except subprocess.TimeoutExpired:
        return [], 'timeout'
    outs = []
    for fn in sorted(os.listdir(od)):
        try:
            outs.append(json.load(open(os.path.join(od, fn))))
        except ValueError:
            pass
    err = p.stderr.decode('utf-8', 'replace')
    report = None
    m = re.search(r'(error: Undefined Behavior.*?|error: .*?[Dd]ata race.*?|error: memory leaked.*?)(?:\n\n|\Z)', err, re.S)
    if m:
        report = m.group(1)[:1500]
    elif p.returncode != 0 and not outs:
        report = 'rc=%d: %s' % (p.returncode, err[-800:])
    return outs, report


def tsan_build(run):
    env = _env({'RUSTFLAGS': '-Zsanitizer=thread', 'CARGO_TARGET_DIR': TSAN_TARGET})
    cmd = ['cargo', '+nightly', 'build', '--offline', '-q', '-Zbuild-std', '--target', 'x86_64-unknown-linux-gnu', '-p', 'avmon-exec', '--no-default-features', '--features', 'hooks']
    p = subprocess.run(cmd, cwd=driver.HARNESS, env=env, stdout=subprocess.PIPE, stderr=subprocess.STDOUT)
    if p.returncode != 0:
        return None, p.stdout.decode('utf-8', 'replace')[-800:]
    return os.path.join(TSAN_TARGET, 'x86_64-unknown-linux-gnu', 'debug', 'avmon-exec'), None


def tsan_race(run, binary, plan, idx):
    pp = os.path.join(run.workdir, 'tsan-plan-%d.json' % idx)
    with open(pp, 'w') as f:
        json.dump(plan, f)
    p = subprocess.run([binary, 'race', pp], stdout=subprocess.PIPE, stderr=subprocess.PIPE, env=dict(os.environ, TSAN_OPTIONS='halt_on_error=0 exitcode=66'), timeout=900)
    os.unlink(pp)
    err = p.stderr.decode('utf-8', 'replace')
    reports = re.findall(r'WARNING: ThreadSanitizer: (.*?)\n(.*?)(?:={10,}|\Z)', err, re.S)
    out = None
    try:
        out = json.loads(p.stdout)
    except ValueError:
        pass
    return p.returncode, [(k, body[:1500]) for k, body in reports], out


def memcheck(run, script_lines, tag, timeout=3000):
    sp = os.path.join(run.workdir, 'vg-%s.jsonl' % tag)
    ep = os.path.join(run.workdir, 'vg-%s.events' % tag)
    with open(sp, 'w') as f:
        for op in script_lines:
            f.write(json.dumps(op) + '\n')
    cmd = ['valgrind', '--tool=memcheck', '--error-exitcode=77', '--leak-check=no', '-q', driver.EXEC_BIN, 'exec', sp, ep]
    try:
        p = subprocess.run(cmd, stdout=subprocess.PIPE, stderr=subprocess.PIPE, timeout=timeout)
    except subprocess.TimeoutExpired:
        return None, 'timeout'
    err = p.stderr.decode('utf-8', 'replace')
    blocks = re.findall(r'==\d+== (Invalid (?:read|write).*?|Conditional jump.*?|Use of uninitialised.*?|Invalid free.*?)\n((?:==\d+==.*\n){1,12})', err)
    return p.returncode, [(k, body[:1000]) for k, body in blocks]


# ---------------------------------------------------------------------------------------------------------
# stages used by the thorough tiers

def _status(ev):
    if ev is None:
        return 'missing'
    for k in ('panic', 'err', 'harness_error', 'ok'):
        if k in ev:
            return k
    return 'other'


def _miri_kind(report):
    first = report.strip().splitlines()[0] if report.strip() else 'empty'
    first = re.sub(r'alloc\d+', 'allocN', first)
    first = re.sub(r'0x[0-9a-f]+', '0xN', first)
    first = re.sub(r'\d+', 'N', first)
    return first[:120].replace('"', "'")


def miri_stage(run, cases, native_events, max_cases=24, shards=8, timeout=3000, what='ops', prefer=None, max_bytes=6000, settings=None):
    """Re-executes a sample of the cases the native run already judged under Miri (stacked-borrows / UB /
    leak interpreter): a report is a violation, the op outcomes must have the same status as natively."""
    from concurrent.futures import ThreadPoolExecutor
    # small cases first; among them those the caller prefers (e.g. histories that reach the unsafe blocks)
    sized = [(len(json.dumps(c)), c) for c in cases]
    small = [c for n, c in sorted(sized, key=lambda x: x[0]) if n <= max_bytes] or [c for n, c in sorted(sized, key=lambda x: x[0])[:max_cases]]
    if prefer is not None:
        small.sort(key=lambda c: -prefer(c))
    pick = small[:max_cases]
    if not pick:
        return
    shards = max(1, min(shards, len(pick)))
    buckets = [[] for _ in range(shards)]
    for i, c in enumerate(pick):
        buckets[i % shards].append(c)

    def one(args):
        i, b = args
        lines = ([dict(id='__settings', op='settings', **settings)] if settings else []) + [op for c in b for op in c]
        return b, miri_exec(run, lines, 's%d' % i, timeout=timeout)
    with ThreadPoolExecutor(max_workers=shards) as ex:
        results = list(ex.map(one, enumerate(buckets)))
    for b, (events, report) in results:
        if report == 'timeout':
            run.inconc('a Miri shard exceeded its wall-clock watchdog')
            continue
        if report and report.startswith('build-failed'):
            run.inconc('Miri build of the executor failed: %s' % report[-300:])
            continue
        if report and report.startswith('rc='):
            run.inconc('Miri run ended abnormally without a report: %s' % report[:300])
            continue
        if report and 'unsupported operation' in report:
            run.count('miri_shards_stopped_at_an_unsupported_operation')
            run.cov.setdefault('miri_unsupported', []).append(report[:200])
        elif report:
            run.violation('miri-report %s' % _miri_kind(report), 'Miri reported: %s' % report[:600], {'ops': [op for c in b for op in c][:40]}, observed=report)
        for c in b:
            for op in c:
                e = events.get(op['id'])
                if e is None:
                    continue
                run.count('miri_%s_executed' % what)
                run.hist('miri_ops', op['op'])
                n = native_events.get(op['id'])
                if n is not None and _status(n) != _status(e) and _status(e) != 'harness_error':
                    run.violation('miri-outcome-differs op=%s native=%s miri=%s' % (op['op'], _status(n), _status(e)),
                                  'the same operation ends differently under the interpreter', {'ops': c}, observed=e, expected=n)
    if not run.cov.get('miri_%s_executed' % what):
        run.inconc('the Miri stage executed no operation')


def memcheck_stage(run, cases, native_events, max_cases=40, shards=8, timeout=3000, settings=None):
    """valgrind memcheck over the native executor (covers the C codecs Miri cannot enter)"""
    from concurrent.futures import ThreadPoolExecutor
    pick = sorted(cases, key=lambda c: len(json.dumps(c)))[:max_cases]
    if not pick:
        return
    shards = max(1, min(shards, len(pick)))
    buckets = [[] for _ in range(shards)]
    for i, c in enumerate(pick):
        buckets[i % shards].append(c)

    def one(args):
        i, b = args
        return b, memcheck(run, ([dict(id='__settings', op='settings', **settings)] if settings else []) + [op for c in b for op in c], 's%d' % i, timeout=timeout)
    with ThreadPoolExecutor(max_workers=shards) as ex:
        results = list(ex.map(one, enumerate(buckets)))
    for b, (rc, blocks) in results:
        if blocks == 'timeout':
            run.inconc('a memcheck shard exceeded its wall-clock watchdog')
            continue
        run.count('memcheck_ops_executed', sum(len(c) for c in b))
        for kind, body in blocks:
            frames = re.findall(r'(?:at|by) 0x[0-9A-F]+: (\S+)', body)
            top = next((f for f in frames if 'avmon' not in f), frames[0] if frames else '?')
            run.violation('memcheck-report %s at=%s' % (kind.split(' of ')[0][:40], top[:80]), 'valgrind memcheck: %s' % kind, {'ops': [op for c in b for op in c][:40]}, observed=body)
        if rc not in (0, 77) and not blocks:
            run.inconc('memcheck run ended with rc=%s' % rc)
