#!/bin/bash
# usage: confirm_seed2.sh <Cxx> [variant=c] -- confirms a round-2 seeded change (made against /repo's HEAD at the time) in the
# scratch worktree /tmp/port-wt: demo passes on the clean tree and fails with the patch, all-features build and suite pass with it;
# then stores it under /verif/seeded/<Cxx>-<variant>/.
set -u
P=$1; X=${2:-c}; SRC=/tmp/wtout2/$P/$X; WT=${WT:-/tmp/port-wt}
HEADSHA=$(git -C /repo rev-parse --short HEAD)
[ -d $WT ] || git -C /repo worktree add -q --detach $WT HEAD || exit 9
cd $WT && git checkout -q --detach $(git -C /repo rev-parse HEAD) && git checkout -q -- . && git clean -fdq -e target
LOG=/tmp/confirm2-$P-$X.log; : > $LOG
[ -f $SRC/patch.diff ] && [ -f $SRC/meta.json ] || { echo "$P-$X: artefacts missing in $SRC"; exit 8; }
DEST=$(python3 -c "import json;print(json.load(open('$SRC/meta.json')).get('demo_dest','avro/tests/demo_test.rs'))")
DEMO=$(ls $SRC/demo_test.rs $SRC/demo.rs 2>/dev/null | head -1)
CMD=$(python3 - <<PY
import json,re,os
m=json.load(open('$SRC/meta.json'))
dest=m.get('demo_dest','avro/tests/demo_test.rs')
cmd=m.get('demo_cmd','')
f=re.search(r'--features[ =]([A-Za-z0-9_,-]+)',cmd)
feat=(' --features '+f.group(1)) if f else ''
pkg='apache-avro-derive' if dest.startswith('avro_derive') else 'apache-avro'
stem=os.path.splitext(os.path.basename(dest))[0]
print(('cargo run --offline -p %s --example %s%s' if '/examples/' in dest else 'cargo test --offline -p %s --test %s%s') % (pkg, stem, feat))
PY
)
cp $DEMO $WT/$DEST
( cd $WT && eval "$CMD" ) >>$LOG 2>&1; R_CLEAN=$?
git -C $WT apply $SRC/patch.diff >>$LOG 2>&1 || { echo "$P-$X: PATCH DOES NOT APPLY"; rm -f $WT/$DEST; exit 8; }
( cd $WT && eval "$CMD" ) >>$LOG 2>&1; R_PATCH=$?
rm -f $WT/$DEST
( cd $WT && cargo build --offline -p apache-avro --features derive,snappy,bzip,xz,zstandard ) >>$LOG 2>&1; R_BUILD=$?
( cd $WT && cargo nextest run --workspace --no-fail-fast --offline --test-threads 8 ) > /tmp/confirm2-$P-$X.suite.log 2>&1; R_SUITE=$?
SUMMARY=$(grep -E 'Summary' /tmp/confirm2-$P-$X.suite.log | tail -1)
git -C $WT checkout -q -- .
echo "$P-$X: demo_clean_rc=$R_CLEAN demo_patched_rc=$R_PATCH build_rc=$R_BUILD suite_rc=$R_SUITE :: $SUMMARY"
if [ $R_CLEAN -eq 0 ] && [ $R_PATCH -ne 0 ] && [ $R_BUILD -eq 0 ] && [ $R_SUITE -eq 0 ]; then
  D=/verif/seeded/$P-$X; mkdir -p $D
  cp $SRC/patch.diff $D/patch.diff; cp $DEMO $D/
  python3 - <<PY
import json
m=json.load(open('$SRC/meta.json'))
m['base']='$HEADSHA (the repaired tree)'
m['confirmed']={'demo_clean_rc':$R_CLEAN,'demo_patched_rc':$R_PATCH,'all_features_build_rc':$R_BUILD,'suite_rc':$R_SUITE,'suite_summary':"""$SUMMARY""",'ran':'tools/confirm_seed2.sh in scratch worktree $WT at $HEADSHA: demo on clean tree, demo with patch, cargo build all features, cargo nextest run --workspace'}
json.dump(m,open('$D/meta.json','w'),indent=1)
PY
  echo "$P-$X: CONFIRMED -> $D"
else
  echo "$P-$X: NOT CONFIRMED (see $LOG)"
fi
