#!/usr/bin/env python3
"""Regenerates MANIFEST.json from the table below (kept here so the manifest is always valid)."""
import json, os, subprocess
V = os.path.dirname(os.path.dirname(os.path.abspath(__file__)))
props = [json.loads(l) for l in open(os.path.join(V, 'properties.jsonl'))]
CLAIMED = json.load(open(os.path.join(V, 'tools', 'claimed.json')))
hooks = subprocess.run(['git', '-C', '/repo', 'log', '--format=%H %s'], capture_output=True, text=True).stdout.splitlines()
hook_commits = [l.split()[0] for l in hooks if ' verif hooks:' in l]
m = {
    'version': 1,
    'setup_cmd': './setup.sh',
    'hooks': {
        'guard': 'cargo feature verif-hooks (apache-avro crate), off by default',
        'enable': 'the harness crate depends on apache-avro with features = [..., "verif-hooks"] (harness/exec/Cargo.toml feature "hooks")',
        'baseline_off_cmd': 'cd /repo && cargo nextest run --workspace --no-fail-fast --offline --test-threads 8',
        'source_commits': hook_commits,
        'add_only': True,
    },
    'engines': [
        {'name': 'avmon-exec', 'path': 'harness/exec', 'serves_properties': sorted(CLAIMED), 'kind_free_text': 'Rust executor linked against /repo working tree: op interpreter with boundary recorder, counting allocator, panic hook, fault-plan sinks'},
        {'name': 'avmon', 'path': 'avmon', 'serves_properties': sorted(CLAIMED), 'kind_free_text': 'Python workload generators, independent reference models and offline checkers over recorded events'},
    ],
    'checks': [],
    'not_applicable': [],
    'notes': 'Exit codes: 0 held, 1 violation (VIOLATION line), 2 inconclusive (INCONCLUSIVE line, never a VIOLATION). Known findings: KNOWN_FINDINGS.txt. See DESIGN.md.',
}
for p in props:
    pid = p['id']
    if pid in CLAIMED:
        c = CLAIMED[pid]
        m['checks'].append({
            'property_id': pid,
            'quick_cmd': './check %s --tier quick' % pid,
            'thorough_cmd': './check %s --tier thorough' % pid,
            'evidence_file': '/verif/evidence/%s.json' % pid,
            'replay_cmd_template': './check %s --replay {path}' % pid,
            'engine': 'avmon-exec',
            'level_claimed': {'category': c['level'], 'text': c['text'], 'design_ref': 'DESIGN.md §6 ' + pid},
            'level_note': c['note'],
            'technique': c['technique'],
        })
    else:
        m['not_applicable'].append({'property_id': pid, 'reason': 'check not built yet in this revision of /verif (planned: DESIGN.md §6 %s); no claim is made' % pid})
json.dump(m, open(os.path.join(V, 'MANIFEST.json'), 'w'), indent=1)
print('claimed', sorted(CLAIMED))
