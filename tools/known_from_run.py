#!/usr/bin/env python3
"""Developer helper (never used by checks): after triage, append `known:` lines for the NEW
violation signatures of the last run of a property, with a description built from a template.
usage: known_from_run.py <Cxx> '<description with {sig}>' [prefix filter]"""
import json, sys, os
V = os.path.dirname(os.path.dirname(os.path.abspath(__file__)))
prop, templ = sys.argv[1], sys.argv[2]
flt = sys.argv[3] if len(sys.argv) > 3 else ''
ev = json.load(open(os.path.join(V, 'evidence', prop + '.json')))
sigs = [s for s in ev['coverage']['new_violation_signatures'] if s.startswith(flt)]
with open(os.path.join(V, 'KNOWN_FINDINGS.txt'), 'a') as f:
    for s in sigs:
        wit = ''
        import glob, hashlib
        h = hashlib.blake2b(s.encode(), digest_size=5).hexdigest()
        p = os.path.join(V, 'replay', '%s-%s-0.json' % (prop, h))
        if os.path.exists(p):
            d = json.load(open(p))
            c = d.get('case') or {}
            if 'schema' in c and 'value' in c:
                wit = '; witness: schema %s value %s' % (json.dumps(c['schema'])[:160], json.dumps(c['value'])[:120])
            elif 'writer' in c:
                wit = '; witness: writer %s reader %s' % (json.dumps(c['writer'])[:120], json.dumps(c['reader'])[:120])
        f.write('known: property=%s sig="%s" :: %s%s\n' % (prop, s, templ.replace('{sig}', s), wit))
print('appended', len(sigs))
