#!/bin/bash
# usage: confirm_seed.sh <Cxx> <variant> [srcdir]   -- confirms a seeded change in a scratch worktree
# (suite still passes with the patch; demo passes without and fails with it), then stores it under /verif/seeded/.
set -u
P=$1; X=$2; SRC=${3:-/tmp/wtout/$P/$X}
WT=/tmp/confirm-wt
BASE=$(cat /root/.vp/repo_root_sha 2>/dev/null || echo 494edea)
LOG=/tmp/confirm-$P-$X.log
: > $LOG
if [ ! -d $WT ]; then git -C /repo worktree add -q --detach $WT 494edea >>$LOG 2>&1 || exit 9; fi
cd $WT && git checkout -q -- . && git clean -fdq -e target >>$LOG 2>&1
DEST=$(python3 -c "import json;print(json.load(open('$SRC/meta.json')).get('demo_dest','avro/tests/demo_test.rs'))")
DEMO=$(ls $SRC/demo_test.rs $SRC/demo.rs 2>/dev/null | head -1)
CMD=$(python3 - <<PY
import json,re,os
m=json.load(open('$SRC/meta.json'))
dest=m.get('demo_dest','avro/tests/demo_test.rs')
cmd=m.get('demo_cmd','')
f=re.search(r'--features[ =]([A-Za-z0-9_,-]+)',cmd)
feat=(' --features '+f.group(1)) if f else ''
pkg='apache-avro-derive' if dest.startswith('avro_derive') else 'apache-avro'
stem=os.path.splitext(os.path.basename(dest))[0]
if '/examples/' in dest:
    print('cargo run --offline -p %s --example %s%s' % (pkg, stem, feat))
else:
    print('cargo test --offline -p %s --test %s%s' % (pkg, stem, feat))
PY
)
echo "demo_dest=$DEST demo=$DEMO cmd=$CMD" >>$LOG
cp $DEMO $WT/$DEST
# 1. demo on clean tree
( cd $WT && eval "$CMD" ) >>$LOG 2>&1; R_CLEAN=$?
# 2. apply patch
git -C $WT apply $SRC/patch.diff >>$LOG 2>&1 || { echo "$P/$X: PATCH DOES NOT APPLY"; exit 8; }
( cd $WT && eval "$CMD" ) >>$LOG 2>&1; R_PATCH=$?
rm -f $WT/$DEST
# 3. suite with patch (all features build too)
( cd $WT && cargo build --offline -p apache-avro --features derive,snappy,bzip,xz,zstandard ) >>$LOG 2>&1; R_BUILD=$?
( cd $WT && cargo nextest run --workspace --no-fail-fast --offline --test-threads 8 ) > /tmp/confirm-$P-$X.suite.log 2>&1; R_SUITE=$?
SUMMARY=$(grep -E 'Summary|tests run' /tmp/confirm-$P-$X.suite.log | tail -1)
git -C $WT checkout -q -- .
echo "$P/$X: demo_clean_rc=$R_CLEAN demo_patched_rc=$R_PATCH build_rc=$R_BUILD suite_rc=$R_SUITE :: $SUMMARY"
if [ $R_CLEAN -eq 0 ] && [ $R_PATCH -ne 0 ] && [ $R_BUILD -eq 0 ] && [ $R_SUITE -eq 0 ]; then
  D=/verif/seeded/$P-$X; mkdir -p $D
  cp $SRC/patch.diff $D/patch.diff; cp $DEMO $D/; 
  python3 - <<PY
import json
m=json.load(open('$SRC/meta.json'))
m['confirmed']={'demo_clean_rc':$R_CLEAN,'demo_patched_rc':$R_PATCH,'all_features_build_rc':$R_BUILD,'suite_rc':$R_SUITE,'suite_summary':"""$SUMMARY""",'ran':'tools/confirm_seed.sh in scratch worktree $WT at the pinned commit: demo on clean tree, demo with patch, cargo build all features, cargo nextest run --workspace'}
json.dump(m,open('$D/meta.json','w'),indent=1)
PY
  echo "$P/$X: CONFIRMED -> $D"
else
  echo "$P/$X: NOT CONFIRMED (see $LOG)"
fi
