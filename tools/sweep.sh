#!/bin/bash
# usage: sweep.sh <tier> <seed> [<seed>...]   (env PROPS="C01 C02 ..." to restrict)
# runs every check on the current tree and prints one line per (check, seed); full logs under /verif/work/sweep/
T=$1; shift
PROPS=${PROPS:-"C01 C02 C03 C04 C05 C06 C07 C08 C09 C10 C11 C12 C13 C14 C15 C16 C17 C18 C19 C20"}
mkdir -p /verif/work/sweep
cd /verif
for S in "$@"; do
  for P in $PROPS; do
    L=/verif/work/sweep/$P.$T.$S.log
    VERIF_SEED=$S ./check $P --tier $T > $L 2>&1; RC=$?
    NEW=$(grep -A1 '^VIOLATION' $L | grep signature | sed 's/  signature: //' | head -6 | tr '\n' ';')
    INC=$(grep '^INCONCLUSIVE' $L | head -2 | cut -c1-200 | tr '\n' ';')
    echo "$P seed=$S tier=$T rc=$RC $(tail -1 $L | cut -c1-120) $NEW $INC"
  done
done
