#!/bin/bash
# usage: run_seed_scratch.sh <seed-name e.g. C01-c> <check id> [tier]
# Judges a seeded change WITHOUT touching /repo: a scratch worktree of /repo's HEAD under /tmp/seedrun/repo gets the patch, a copy of
# the harness path-depends on it and builds into /tmp/seedrun/target; evidence and replay files go to /tmp/seedrun/out.
# (Equivalent to tools/run_seed.sh, which applies the patch to /repo itself; this one can run while other checks use /repo.)
S=$1; P=$2; T=${3:-quick}
R=/tmp/seedrun
mkdir -p $R/out
[ -d $R/repo ] || git -C /repo worktree add -q --detach $R/repo HEAD || exit 9
cd $R/repo && git checkout -q --detach $(git -C /repo rev-parse HEAD) && git checkout -q -- . && git clean -fdq
PATCH=/verif/seeded/$S/patch.diff; [ -f /verif/seeded/$S/patch_head.diff ] && PATCH=/verif/seeded/$S/patch_head.diff
if ! git apply $PATCH > $R/apply.log 2>&1; then echo "$S vs $P: PATCH-CONFLICT (seed overlaps a later fix/hook commit)"; exit 7; fi
rm -rf $R/harness && cp -a /verif/harness $R/harness && rm -f $R/harness/Cargo.lock
sed -i "s#/repo/avro#$R/repo/avro#g" $R/harness/exec/Cargo.toml $R/harness/corpus/Cargo.toml
sed -i "s#/verif/target#$R/target#" $R/harness/.cargo/config.toml
cp $R/repo/Cargo.lock $R/harness/Cargo.lock
cd /verif && AVMON_HARNESS=$R/harness AVMON_TARGET=$R/target AVMON_OUT=$R/out ./check $P --tier $T > $R/out/run_${S}_${P}.log 2>&1; RC=$?
cd $R/repo && git checkout -q -- .
SIGS=$(grep -A1 '^VIOLATION' $R/out/run_${S}_${P}.log | grep signature | sed 's/  signature: //' | head -4 | tr '\n' ';')
echo "$S vs $P [$T]: exit=$RC $( [ $RC -eq 1 ] && echo DETECTED || echo MISSED ) :: $SIGS"
