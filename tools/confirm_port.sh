#!/bin/bash
# usage: confirm_port.sh <Cxx-v>  -- confirms seeded/<id>/patch_head.diff (the seed ported onto /repo's HEAD, needed
# where the original patch overlaps a later fix: commit) in a scratch worktree of HEAD: demo passes on HEAD, fails with the
# port, all-features build and the baseline suite still pass.  Records the outcome in meta.json ("confirmed_head").
set -u
S=$1; D=/verif/seeded/$S; WT=/tmp/port-wt
[ -d $WT ] || git -C /repo worktree add -q --detach $WT HEAD || exit 9
cd $WT && git checkout -q --detach $(git -C /repo rev-parse HEAD) && git checkout -q -- . && git clean -fdq -e target
LOG=/tmp/port-$S.log; : > $LOG
DEST=$(python3 -c "import json;print(json.load(open('$D/meta.json')).get('demo_dest','avro/tests/demo_test.rs'))")
DEMO=$(ls $D/demo_test.rs $D/demo.rs 2>/dev/null | head -1)
CMD=$(python3 - <<PY
import json,re,os
m=json.load(open('$D/meta.json'))
dest=m.get('demo_dest','avro/tests/demo_test.rs')
cmd=m.get('demo_cmd','')
f=re.search(r'--features[ =]([A-Za-z0-9_,-]+)',cmd)
feat=(' --features '+f.group(1)) if f else ''
pkg='apache-avro-derive' if dest.startswith('avro_derive') else 'apache-avro'
stem=os.path.splitext(os.path.basename(dest))[0]
print(('cargo run --offline -p %s --example %s%s' if '/examples/' in dest else 'cargo test --offline -p %s --test %s%s') % (pkg, stem, feat))
PY
)
cp $DEMO $WT/$DEST
( cd $WT && eval "$CMD" ) >>$LOG 2>&1; R_CLEAN=$?
git -C $WT apply $D/patch_head.diff >>$LOG 2>&1 || { echo "$S: PORT DOES NOT APPLY"; exit 8; }
( cd $WT && eval "$CMD" ) >>$LOG 2>&1; R_PATCH=$?
rm -f $WT/$DEST
( cd $WT && cargo build --offline -p apache-avro --features derive,snappy,bzip,xz,zstandard ) >>$LOG 2>&1; R_BUILD=$?
( cd $WT && cargo nextest run --workspace --no-fail-fast --offline --test-threads 8 ) > /tmp/port-$S.suite.log 2>&1; R_SUITE=$?
SUMMARY=$(grep -E 'Summary' /tmp/port-$S.suite.log | tail -1)
git -C $WT checkout -q -- .
echo "$S: demo_head_rc=$R_CLEAN demo_ported_rc=$R_PATCH build_rc=$R_BUILD suite_rc=$R_SUITE :: $SUMMARY"
python3 - <<PY
import json
m=json.load(open('$D/meta.json'))
m['confirmed_head']={'head':'$(git -C /repo rev-parse --short HEAD)','demo_head_rc':$R_CLEAN,'demo_ported_rc':$R_PATCH,'all_features_build_rc':$R_BUILD,'suite_rc':$R_SUITE,'suite_summary':"""$SUMMARY""",
  'note':'patch_head.diff = the same change re-applied by hand onto the repaired tree (the original patch.diff overlaps a fix: commit)'}
json.dump(m,open('$D/meta.json','w'),indent=1)
PY
