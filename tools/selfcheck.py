#!/usr/bin/env python3
"""Monitor self-checks: the reference models against byte vectors printed in the Avro specification
(and the published CRC-64-AVRO fingerprints), before they are trusted as oracles."""
import sys
import os
sys.path.insert(0, os.path.dirname(os.path.dirname(os.path.abspath(__file__))))
from avmon.ref import avrobin, crc64, pcf, names, snappy, ocf, resolve  # noqa

# zig-zag table from the specification
for n, hx in [(0, '00'), (-1, '01'), (1, '02'), (-2, '03'), (2, '04'), (-64, '7f'), (64, '8001'), (8192, '808001'), (-8193, '818001')]:
    assert avrobin.enc_long(n).hex() == hx, (n, avrobin.enc_long(n).hex())
    assert avrobin.dec_long(bytes.fromhex(hx), 0) == (n, len(hx) // 2)
# the specification's example: string "foo" -> 06 66 6f 6f ; record {a: 27, b: "foo"} -> 36 06 66 6f 6f ; array [3, 27] -> 04 06 36 00
node, env = names.parse('string')
assert avrobin.encode(node, env, {'s': 'foo'}).hex() == '06666f6f'
node, env = names.parse({'type': 'record', 'name': 'test', 'fields': [{'name': 'a', 'type': 'long'}, {'name': 'b', 'type': 'string'}]})
assert avrobin.encode(node, env, {'r': [['a', {'l': 27}], ['b', {'s': 'foo'}]]}).hex() == '3606666f6f'
node, env = names.parse({'type': 'array', 'items': 'long'})
assert avrobin.encode(node, env, {'a': [{'l': 3}, {'l': 27}]}).hex() == '04063600'
node, env = names.parse(['null', 'string'])
assert avrobin.encode(node, env, {'u': [0, None]}).hex() == '00'
assert avrobin.encode(node, env, {'u': [1, {'s': 'a'}]}).hex() == '020261'
# CRC-64-AVRO: published fingerprints of the canonical forms "int" and "string" (Avro's schema test vectors)
assert crc64.fingerprint64(b'"int"') == 0x7275d51a3f395c8f
assert crc64.fingerprint64(b'"string"') == 0x8f014872634503c7
assert crc64.fingerprint64(b'') == crc64.EMPTY
# PCF rules on the specification's wording
assert pcf.pcf({'type': 'int'}) == '"int"'
assert pcf.pcf({'type': 'fixed', 'name': 'md5', 'namespace': 'org.x', 'size': 16, 'doc': 'd', 'aliases': ['a']}) == '{"name":"org.x.md5","type":"fixed","size":16}'
assert pcf.pcf({'type': 'record', 'name': 'R', 'namespace': 'n', 'doc': 'x', 'fields': [{'name': 'f', 'type': {'type': 'enum', 'name': 'E', 'symbols': ['A']}, 'default': 'A', 'order': 'ignore'}, {'name': 'g', 'type': 'E'}]}) == \
    '{"name":"n.R","type":"record","fields":[{"name":"f","type":{"name":"n.E","type":"enum","symbols":["A"]}},{"name":"g","type":"n.E"}]}'
# snappy: own codec round trip incl. copies; OCF reader on a file written by the OCF writer
d = b'abc' * 100 + bytes(500)
assert snappy.decompress(snappy.compress(d)) == d
node, env = names.parse('long')
f = ocf.write('"long"', node, env, [[{'l': 1}, {'l': 2}], [{'l': 3}]], codec='deflate')
p = ocf.parse(f)
assert ocf.read_values(p, node, env) == [{'l': 1}, {'l': 2}, {'l': 3}]
# resolution: the specification's promotion and default rules
w, we = names.parse('int')
r, re_ = names.parse('double')
assert resolve.resolve(w, we, r, re_, {'i': 3}) == [{'d': '0x4008000000000000'}]
print('selfcheck ok')
