#!/bin/sh
# regenerates the checked-in typed corpora (deterministic: fixed generator seeds)
cd /verif || exit 1
python3 -m avmon.gen.derive_corpus hand > harness/corpus/src/hand.rs
python3 -m avmon.gen.derive_corpus fixed fixed-corpus-1 150 > harness/corpus/src/derived_fixed.rs
python3 -m avmon.gen.derive_corpus fixed seeded-corpus-2 300 H > harness/corpus/src/derived_seeded.rs
