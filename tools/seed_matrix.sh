#!/bin/bash
# usage: seed_matrix.sh [tier]  -- runs every seeded change against the check of its property and writes seeded/MATRIX.md
# (do not run while anything else builds from /repo: the seeds are applied to /repo's working tree, one at a time)
T=${1:-quick}
OUT=/verif/seeded/MATRIX.md
{
echo "# Seeded changes vs checks (tier: $T, /repo HEAD $(git -C /repo rev-parse --short HEAD), $(date -u +%Y-%m-%d))"
echo
echo "| seed | check | result | first signatures |"
echo "|---|---|---|---|"
} > $OUT
for D in /verif/seeded/C*-*; do
  S=$(basename $D); P=${S%%-*}
  if python3 -c "import json,sys;m=json.load(open('$D/meta.json'));sys.exit(0 if m.get('confirmed_head',{}).get('portable',True) is False else 1)"; then
    echo "| $S | $P | not runnable on the repaired tree (see meta.json) | |" >> $OUT; continue
  fi
  LINE=$(/verif/tools/run_seed.sh $S $P $T | tail -1)
  RES=$(echo "$LINE" | sed -n 's/.*exit=\([0-9]*\) \([A-Z-]*\) ::.*/\2 (exit \1)/p'); [ -z "$RES" ] && RES="$LINE"
  SIGS=$(echo "$LINE" | sed -n 's/.*:: \(.*\)$/\1/p' | cut -c1-260)
  echo "| $S | $P | $RES | $SIGS |" >> $OUT
  echo "$LINE"
done
cd /verif && ./check C01 --tier quick > /dev/null 2>&1   # leave a harness binary built from the clean tree
