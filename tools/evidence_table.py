#!/usr/bin/env python3
"""prints a markdown table of what the last run of every check observed (from evidence/*.json)"""
import json, glob, os
V = os.path.dirname(os.path.dirname(os.path.abspath(__file__)))
print('| check | tier | seed | status | evaluations | distinct non-trivial | known findings hit | wall s |')
print('|---|---|---|---|---|---|---|---|')
for f in sorted(glob.glob(os.path.join(V, 'evidence', 'C??.json'))):
    e = json.load(open(f))
    c = e['coverage']
    print('| %s | %s | %s | %s | %s | %s | %s | %s |' % (e['property_id'], e['tier'], e['seed'], c.get('status'), c.get('evaluations'), c.get('distinct_nontrivial'),
                                                   len(c.get('known_findings_hit', [])), e.get('wall_s')))
