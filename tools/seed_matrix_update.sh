#!/bin/bash
# usage: seed_matrix_update.sh <tier> <seed>...  -- re-runs the given seeds and replaces their lines in seeded/MATRIX.md
T=$1; shift
OUT=/verif/seeded/MATRIX.md
for S in "$@"; do
  P=${S%%-*}
  LINE=$(/verif/tools/run_seed.sh $S $P $T | tail -1)
  RES=$(echo "$LINE" | sed -n 's/.*exit=\([0-9]*\) \([A-Z-]*\) ::.*/\2 (exit \1)/p'); [ -z "$RES" ] && RES="$LINE"
  SIGS=$(echo "$LINE" | sed -n 's/.*:: \(.*\)$/\1/p' | cut -c1-260)
  python3 - "$S" "$P" "$RES" "$SIGS" <<'PY'
import sys
s,p,res,sigs=sys.argv[1:5]
path='/verif/seeded/MATRIX.md'
lines=open(path).read().split('\n')
new='| %s | %s | %s | %s |' % (s,p,res,sigs)
for i,l in enumerate(lines):
    if l.startswith('| %s |' % s):
        lines[i]=new; break
else:
    lines.append(new)
open(path,'w').write('\n'.join(lines))
PY
  echo "$LINE"
done
cd /verif && ./check C01 --tier quick > /dev/null 2>&1
