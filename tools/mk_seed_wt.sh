#!/bin/bash
# usage: mk_seed_wt.sh <Cxx> ...  -- scratch worktrees of /repo HEAD under /tmp/wt2 with a copy of /repo/target, property text under /tmp/wtout2
for P in "$@"; do
  mkdir -p /tmp/wt2 /tmp/wtout2/$P/f
  [ -d /tmp/wt2/$P ] || git -C /repo worktree add -q --detach /tmp/wt2/$P HEAD
  [ -d /tmp/wt2/$P/target ] || cp -a --reflink=auto /repo/target /tmp/wt2/$P/target
  python3 - <<PY
import json
for l in open('/verif/properties.jsonl'):
    j=json.loads(l)
    if j['id']=='$P':
        json.dump(j,open('/tmp/wtout2/$P/property.json','w'),indent=1)
PY
done
