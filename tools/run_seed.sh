#!/bin/bash
# usage: run_seed.sh <seed-name e.g. C01-a> <check id e.g. C01> [tier]
# applies the seeded change to /repo, runs the check, restores /repo. Prints one summary line.
S=$1; P=$2; T=${3:-quick}
cd /repo || exit 9
if ! git diff --quiet; then echo "$S: /repo has uncommitted changes, refusing"; exit 9; fi
if ! git apply --3way $( [ -f /verif/seeded/$S/patch_head.diff ] && echo /verif/seeded/$S/patch_head.diff || echo /verif/seeded/$S/patch.diff ) >/tmp/run_seed_apply.log 2>&1; then
  git reset -q --hard HEAD; echo "$S vs $P: PATCH-CONFLICT (seed overlaps a later fix/hook commit)"; exit 7
fi
git reset -q   # keep the change in the working tree only
cd /verif && ./check $P --tier $T > /tmp/run_seed_${S}_${P}.log 2>&1; RC=$?
cd /repo && git checkout -q -- .
SIGS=$(grep -A1 '^VIOLATION' /tmp/run_seed_${S}_${P}.log | grep signature | sed 's/  signature: //' | head -4 | tr '\n' ';')
echo "$S vs $P [$T]: exit=$RC $( [ $RC -eq 1 ] && echo DETECTED || echo MISSED ) :: $SIGS"
