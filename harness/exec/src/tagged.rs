//! Value <-> tagged JSON, bit exact (floats by bit pattern, bytes as hex).
//!
//! Tags: null | {"b":bool} {"i":n} {"l":n} {"f":"0x.."} {"d":"0x.."} {"B":hex} {"s":str}
//! {"F":hex} {"e":[idx,sym]} {"u":[idx,v]} {"a":[..]} {"m":[[k,v]..]} {"r":[[name,v]..]}
//! {"date":n} {"dec":hex} {"bigdec":[unscaled-string,scale]} {"tms":n} {"tus":n} {"tsms":n}
//! {"tsus":n} {"tsns":n} {"ltsms":n} {"ltsus":n} {"ltsns":n} {"dur":[m,d,ms]} {"uuid":hex32}

use apache_avro::types::Value;
use apache_avro::{Days, Decimal, Duration, Millis, Months};
use serde_json::{Value as J, json};
use std::collections::HashMap;

pub fn hex(b: &[u8]) -> String {
    const H: &[u8; 16] = b"0123456789abcdef";
    let mut s = String::with_capacity(b.len() * 2);
    for x in b {
        s.push(H[(x >> 4) as usize] as char);
        s.push(H[(x & 15) as usize] as char);
    }
    s
}

pub fn unhex(s: &str) -> Result<Vec<u8>, String> {
    let b = s.as_bytes();
    if b.len() % 2 != 0 {
        return Err("odd hex".into());
    }
    fn v(c: u8) -> Result<u8, String> {
        match c {
            b'0'..=b'9' => Ok(c - b'0'),
            b'a'..=b'f' => Ok(c - b'a' + 10),
            b'A'..=b'F' => Ok(c - b'A' + 10),
            _ => Err("bad hex".into()),
        }
    }
    let mut out = Vec::with_capacity(b.len() / 2);
    for p in b.chunks(2) {
        out.push(v(p[0])? << 4 | v(p[1])?);
    }
    Ok(out)
}

pub fn to_tagged(v: &Value) -> J {
    match v {
        Value::Null => J::Null,
        Value::Boolean(b) => json!({"b": b}),
        Value::Int(i) => json!({"i": i}),
        Value::Long(i) => json!({"l": i}),
        Value::Float(x) => json!({"f": format!("0x{:08x}", x.to_bits())}),
        Value::Double(x) => json!({"d": format!("0x{:016x}", x.to_bits())}),
        Value::Bytes(b) => json!({"B": hex(b)}),
        Value::String(s) => json!({"s": s}),
        Value::Fixed(n, b) => json!({"F": hex(b), "n": n}),
        Value::Enum(i, s) => json!({"e": [i, s]}),
        Value::Union(i, b) => json!({"u": [i, to_tagged(b)]}),
        Value::Array(a) => json!({"a": a.iter().map(to_tagged).collect::<Vec<_>>()}),
        Value::Map(m) => {
            let mut items: Vec<(&String, &Value)> = m.iter().collect();
            items.sort_by(|a, b| a.0.cmp(b.0));
            json!({"m": items.iter().map(|(k, v)| json!([k, to_tagged(v)])).collect::<Vec<_>>()})
        }
        Value::Record(r) => {
            json!({"r": r.iter().map(|(k, v)| json!([k, to_tagged(v)])).collect::<Vec<_>>()})
        }
        Value::Date(i) => json!({"date": i}),
        Value::Decimal(d) => match Vec::<u8>::try_from(d) {
            Ok(b) => json!({"dec": hex(&b)}),
            Err(e) => json!({"dec_err": e.to_string()}),
        },
        Value::BigDecimal(bd) => {
            let (bi, exp) = bd.as_bigint_and_exponent();
            json!({"bigdec": [bi.to_string(), exp]})
        }
        Value::TimeMillis(i) => json!({"tms": i}),
        Value::TimeMicros(i) => json!({"tus": i}),
        Value::TimestampMillis(i) => json!({"tsms": i}),
        Value::TimestampMicros(i) => json!({"tsus": i}),
        Value::TimestampNanos(i) => json!({"tsns": i}),
        Value::LocalTimestampMillis(i) => json!({"ltsms": i}),
        Value::LocalTimestampMicros(i) => json!({"ltsus": i}),
        Value::LocalTimestampNanos(i) => json!({"ltsns": i}),
        Value::Duration(d) => {
            let m: u32 = d.months().into();
            let dd: u32 = d.days().into();
            let ms: u32 = d.millis().into();
            json!({"dur": [m, dd, ms]})
        }
        Value::Uuid(u) => json!({"uuid": hex(u.as_bytes())}),
    }
}

fn bits(s: &str) -> Result<u64, String> {
    let t = s.strip_prefix("0x").ok_or("float bits must start with 0x")?;
    u64::from_str_radix(t, 16).map_err(|e| e.to_string())
}

fn i64of(j: &J) -> Result<i64, String> {
    j.as_i64().ok_or_else(|| format!("not an i64: {j}"))
}
fn i32of(j: &J) -> Result<i32, String> {
    i32::try_from(i64of(j)?).map_err(|e| e.to_string())
}
fn u32of(j: &J) -> Result<u32, String> {
    j.as_u64()
        .and_then(|x| u32::try_from(x).ok())
        .ok_or_else(|| format!("not a u32: {j}"))
}
fn strof(j: &J) -> Result<&str, String> {
    j.as_str().ok_or_else(|| format!("not a string: {j}"))
}

pub fn from_tagged(j: &J) -> Result<Value, String> {
    if j.is_null() {
        return Ok(Value::Null);
    }
    let o = j.as_object().ok_or_else(|| format!("bad tagged value {j}"))?;
    let (k, v) = o
        .iter()
        .find(|(k, _)| k.as_str() != "n")
        .ok_or("empty tagged object")?;
    Ok(match k.as_str() {
        "b" => Value::Boolean(v.as_bool().ok_or("b")?),
        "i" => Value::Int(i32of(v)?),
        "l" => Value::Long(i64of(v)?),
        "f" => Value::Float(f32::from_bits(bits(strof(v)?)? as u32)),
        "d" => Value::Double(f64::from_bits(bits(strof(v)?)?)),
        "B" => Value::Bytes(unhex(strof(v)?)?),
        "s" => Value::String(strof(v)?.to_string()),
        "F" => {
            let b = unhex(strof(v)?)?;
            let n = match o.get("n") {
                Some(n) => n.as_u64().ok_or("n")? as usize,
                None => b.len(),
            };
            Value::Fixed(n, b)
        }
        "e" => {
            let a = v.as_array().ok_or("e")?;
            Value::Enum(u32of(&a[0])?, strof(&a[1])?.to_string())
        }
        "u" => {
            let a = v.as_array().ok_or("u")?;
            Value::Union(u32of(&a[0])?, Box::new(from_tagged(&a[1])?))
        }
        "a" => Value::Array(
            v.as_array()
                .ok_or("a")?
                .iter()
                .map(from_tagged)
                .collect::<Result<Vec<_>, _>>()?,
        ),
        "m" => {
            let mut m = HashMap::new();
            for kv in v.as_array().ok_or("m")? {
                let kv = kv.as_array().ok_or("m item")?;
                m.insert(strof(&kv[0])?.to_string(), from_tagged(&kv[1])?);
            }
            Value::Map(m)
        }
        "r" => {
            let mut r = Vec::new();
            for kv in v.as_array().ok_or("r")? {
                let kv = kv.as_array().ok_or("r item")?;
                r.push((strof(&kv[0])?.to_string(), from_tagged(&kv[1])?));
            }
            Value::Record(r)
        }
        "date" => Value::Date(i32of(v)?),
        "dec" => Value::Decimal(Decimal::from(unhex(strof(v)?)?)),
        "bigdec" => {
            let a = v.as_array().ok_or("bigdec")?;
            let bi: num_bigint::BigInt = strof(&a[0])?.parse().map_err(|_| "bigint")?;
            Value::BigDecimal(bigdecimal::BigDecimal::new(bi, i64of(&a[1])?))
        }
        "tms" => Value::TimeMillis(i32of(v)?),
        "tus" => Value::TimeMicros(i64of(v)?),
        "tsms" => Value::TimestampMillis(i64of(v)?),
        "tsus" => Value::TimestampMicros(i64of(v)?),
        "tsns" => Value::TimestampNanos(i64of(v)?),
        "ltsms" => Value::LocalTimestampMillis(i64of(v)?),
        "ltsus" => Value::LocalTimestampMicros(i64of(v)?),
        "ltsns" => Value::LocalTimestampNanos(i64of(v)?),
        "dur" => {
            let a = v.as_array().ok_or("dur")?;
            Value::Duration(Duration::new(
                Months::new(u32of(&a[0])?),
                Days::new(u32of(&a[1])?),
                Millis::new(u32of(&a[2])?),
            ))
        }
        "uuid" => {
            let b = unhex(strof(v)?)?;
            Value::Uuid(uuid::Uuid::from_slice(&b).map_err(|e| e.to_string())?)
        }
        other => return Err(format!("unknown tag {other}")),
    })
}
