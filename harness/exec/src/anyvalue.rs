//! A step-counting `Deserialize` target driven through `deserialize_any`: accepts whatever the
//! schema-aware deserializer produces, counts visited nodes, and stops (with an error) when the
//! configured logical step budget is exceeded.

use serde::de::{self, Deserialize, Deserializer, EnumAccess, MapAccess, SeqAccess, VariantAccess, Visitor};
use std::cell::Cell;
use std::fmt;

thread_local! {
    static STEPS: Cell<u64> = const { Cell::new(0) };
    static LIMIT: Cell<u64> = const { Cell::new(u64::MAX) };
    /// count only: children of sequences and maps are dropped as soon as they are visited
    static DISCARD: Cell<bool> = const { Cell::new(false) };
}

pub fn set_discard(on: bool) {
    DISCARD.with(|d| d.set(on));
}

pub fn reset(limit: u64) {
    STEPS.with(|s| s.set(0));
    LIMIT.with(|l| l.set(limit));
}

pub fn steps() -> u64 {
    STEPS.with(|s| s.get())
}

fn step<E: de::Error>() -> Result<(), E> {
    let n = STEPS.with(|s| {
        let v = s.get() + 1;
        s.set(v);
        v
    });
    if n > LIMIT.with(|l| l.get()) {
        Err(E::custom("AVMON-STEP-BUDGET"))
    } else {
        Ok(())
    }
}

#[derive(Debug, Clone, PartialEq)]
pub enum AnyValue {
    Unit,
    Bool(bool),
    I64(i64),
    U64(u64),
    I128(i128),
    U128(u128),
    F32(u32),
    F64(u64),
    Str(String),
    Bytes(Vec<u8>),
    Seq(Vec<AnyValue>),
    Map(Vec<(AnyValue, AnyValue)>),
    Enum(String),
    Variant(u64, Box<AnyValue>),
    None,
    Some(Box<AnyValue>),
}

impl AnyValue {
    /// canonical JSON-ish rendering used for comparisons in the monitors
    pub fn render(&self) -> serde_json::Value {
        use serde_json::json;
        match self {
            AnyValue::Unit => json!(null),
            AnyValue::Bool(b) => json!({"b": b}),
            AnyValue::I64(i) => json!({"i": i}),
            AnyValue::U64(i) => json!({"i": i}),
            AnyValue::I128(i) => json!({"i128": i.to_string()}),
            AnyValue::U128(i) => json!({"u128": i.to_string()}),
            AnyValue::F32(b) => json!({"f": format!("0x{b:08x}")}),
            AnyValue::F64(b) => json!({"d": format!("0x{b:016x}")}),
            AnyValue::Str(s) => json!({"s": s}),
            AnyValue::Bytes(b) => json!({"B": crate::tagged::hex(b)}),
            AnyValue::Seq(v) => json!({"a": v.iter().map(|x| x.render()).collect::<Vec<_>>()}),
            AnyValue::Map(v) => {
                json!({"m": v.iter().map(|(k, x)| json!([k.render(), x.render()])).collect::<Vec<_>>()})
            }
            AnyValue::Enum(s) => json!({"e": s}),
            AnyValue::Variant(i, v) => json!({"u": [i, v.render()]}),
            AnyValue::None => json!({"none": true}),
            AnyValue::Some(v) => json!({"some": v.render()}),
        }
    }
}

struct Ident(Result<String, u64>);

impl<'de> Deserialize<'de> for Ident {
    fn deserialize<D: Deserializer<'de>>(d: D) -> Result<Self, D::Error> {
        struct V;
        impl<'de> Visitor<'de> for V {
            type Value = Ident;
            fn expecting(&self, f: &mut fmt::Formatter) -> fmt::Result {
                f.write_str("identifier")
            }
            fn visit_str<E: de::Error>(self, v: &str) -> Result<Ident, E> {
                Ok(Ident(Ok(v.to_string())))
            }
            fn visit_u64<E: de::Error>(self, v: u64) -> Result<Ident, E> {
                Ok(Ident(Err(v)))
            }
            fn visit_u32<E: de::Error>(self, v: u32) -> Result<Ident, E> {
                Ok(Ident(Err(v as u64)))
            }
            fn visit_bytes<E: de::Error>(self, v: &[u8]) -> Result<Ident, E> {
                Ok(Ident(Ok(String::from_utf8_lossy(v).into_owned())))
            }
        }
        d.deserialize_identifier(V)
    }
}

struct AnyVisitor;

impl<'de> Visitor<'de> for AnyVisitor {
    type Value = AnyValue;
    fn expecting(&self, f: &mut fmt::Formatter) -> fmt::Result {
        f.write_str("anything")
    }
    fn visit_bool<E: de::Error>(self, v: bool) -> Result<AnyValue, E> {
        step()?;
        Ok(AnyValue::Bool(v))
    }
    fn visit_i64<E: de::Error>(self, v: i64) -> Result<AnyValue, E> {
        step()?;
        Ok(AnyValue::I64(v))
    }
    fn visit_u64<E: de::Error>(self, v: u64) -> Result<AnyValue, E> {
        step()?;
        Ok(AnyValue::U64(v))
    }
    fn visit_i128<E: de::Error>(self, v: i128) -> Result<AnyValue, E> {
        step()?;
        Ok(AnyValue::I128(v))
    }
    fn visit_u128<E: de::Error>(self, v: u128) -> Result<AnyValue, E> {
        step()?;
        Ok(AnyValue::U128(v))
    }
    fn visit_f32<E: de::Error>(self, v: f32) -> Result<AnyValue, E> {
        step()?;
        Ok(AnyValue::F32(v.to_bits()))
    }
    fn visit_f64<E: de::Error>(self, v: f64) -> Result<AnyValue, E> {
        step()?;
        Ok(AnyValue::F64(v.to_bits()))
    }
    fn visit_str<E: de::Error>(self, v: &str) -> Result<AnyValue, E> {
        step()?;
        Ok(AnyValue::Str(v.to_string()))
    }
    fn visit_string<E: de::Error>(self, v: String) -> Result<AnyValue, E> {
        step()?;
        Ok(AnyValue::Str(v))
    }
    fn visit_bytes<E: de::Error>(self, v: &[u8]) -> Result<AnyValue, E> {
        step()?;
        Ok(AnyValue::Bytes(v.to_vec()))
    }
    fn visit_byte_buf<E: de::Error>(self, v: Vec<u8>) -> Result<AnyValue, E> {
        step()?;
        Ok(AnyValue::Bytes(v))
    }
    fn visit_unit<E: de::Error>(self) -> Result<AnyValue, E> {
        step()?;
        Ok(AnyValue::Unit)
    }
    fn visit_none<E: de::Error>(self) -> Result<AnyValue, E> {
        step()?;
        Ok(AnyValue::None)
    }
    fn visit_some<D: Deserializer<'de>>(self, d: D) -> Result<AnyValue, D::Error> {
        step()?;
        Ok(AnyValue::Some(Box::new(AnyValue::deserialize(d)?)))
    }
    fn visit_newtype_struct<D: Deserializer<'de>>(self, d: D) -> Result<AnyValue, D::Error> {
        step()?;
        AnyValue::deserialize(d)
    }
    fn visit_seq<A: SeqAccess<'de>>(self, mut a: A) -> Result<AnyValue, A::Error> {
        step()?;
        let mut v = Vec::new();
        let discard = DISCARD.with(|d| d.get());
        while let Some(x) = a.next_element::<AnyValue>()? {
            if !discard {
                v.push(x);
            }
        }
        Ok(AnyValue::Seq(v))
    }
    fn visit_map<A: MapAccess<'de>>(self, mut a: A) -> Result<AnyValue, A::Error> {
        step()?;
        let mut v = Vec::new();
        let discard = DISCARD.with(|d| d.get());
        while let Some(k) = a.next_key::<AnyValue>()? {
            let x = a.next_value::<AnyValue>()?;
            if !discard {
                v.push((k, x));
            }
        }
        Ok(AnyValue::Map(v))
    }
    fn visit_enum<A: EnumAccess<'de>>(self, a: A) -> Result<AnyValue, A::Error> {
        step()?;
        let (id, va) = a.variant::<Ident>()?;
        match id.0 {
            Ok(name) => {
                va.unit_variant()?;
                Ok(AnyValue::Enum(name))
            }
            Err(idx) => Ok(AnyValue::Variant(idx, Box::new(va.newtype_variant::<AnyValue>()?))),
        }
    }
}

impl<'de> Deserialize<'de> for AnyValue {
    fn deserialize<D: Deserializer<'de>>(d: D) -> Result<Self, D::Error> {
        d.deserialize_any(AnyVisitor)
    }
}
