//! Op interpreter: JSONL script in, JSONL events out.
//!
//! For each op a `{"id":..,"call":op}` line is flushed before the call, so that a crash is
//! attributable; after the call one `{"id":..,"ok":..}` / `{"id":..,"err":..}` /
//! `{"id":..,"panic":..}` line is written, with allocator counters.

use crate::dump::dump;
use crate::dynser::Plan;
use crate::panics::{PanicInfo, guard};
use crate::sink::{CountingRead, SharedSink};
use crate::tagged::{from_tagged, hex, to_tagged, unhex};
use apache_avro::schema::{Name, ResolvedSchema};
use apache_avro::schema_compatibility::SchemaCompatibility;
use apache_avro::types::Value;
use apache_avro::reader::datum::GenericDatumReader;
use apache_avro::writer::datum::GenericDatumWriter;
use apache_avro::{Codec, Error, GenericSingleObjectReader, Schema};
use serde_json::{Map, Value as J, json};
use std::collections::HashMap;
use std::io::{BufRead, BufReader, BufWriter, Write};

pub struct Ctx {
    pub schemas: HashMap<String, Schema>,
}

pub enum Out {
    Ok(J),
    Err(String, String),
}

type R = Result<J, OpErr>;

pub enum OpErr {
    Lib(Error),
    Harness(String),
}

impl From<Error> for OpErr {
    fn from(e: Error) -> Self {
        OpErr::Lib(e)
    }
}
impl From<String> for OpErr {
    fn from(e: String) -> Self {
        OpErr::Harness(e)
    }
}
impl From<&str> for OpErr {
    fn from(e: &str) -> Self {
        OpErr::Harness(e.to_string())
    }
}

pub fn err_kind(e: &Error) -> String {
    // `Details` has no public discriminant name and its Debug prints the message, so the kind is
    // the fixed leading words of the message template (cut at the first interpolated part).
    let d = e.to_string();
    let end = d
        .find(|c: char| !(c.is_ascii_alphabetic() || c == ' ' || c == '-' || c == '\''))
        .unwrap_or(d.len());
    let words: Vec<&str> = d[..end].split_whitespace().take(6).collect();
    if words.is_empty() {
        "Error".to_string()
    } else {
        words.join("-")
    }
}

pub fn err_json(e: &Error) -> J {
    let mut msg = e.to_string();
    if msg.len() > 300 {
        let mut cut = 300;
        while !msg.is_char_boundary(cut) {
            cut -= 1;
        }
        msg.truncate(cut);
    }
    json!({"kind": err_kind(e), "msg": msg})
}

fn gs<'a>(o: &'a Map<String, J>, k: &str) -> Result<&'a str, OpErr> {
    o.get(k)
        .and_then(|v| v.as_str())
        .ok_or_else(|| OpErr::Harness(format!("missing string field {k}")))
}

fn gb(o: &Map<String, J>, k: &str, d: bool) -> bool {
    o.get(k).and_then(|v| v.as_bool()).unwrap_or(d)
}

fn gu(o: &Map<String, J>, k: &str) -> Option<usize> {
    o.get(k).and_then(|v| v.as_u64()).map(|x| x as usize)
}

impl Ctx {
    pub fn schema(&self, id: &str) -> Result<&Schema, OpErr> {
        self.schemas
            .get(id)
            .ok_or_else(|| OpErr::Harness(format!("unknown schema id {id}")))
    }
    pub fn schemata(&self, o: &Map<String, J>, k: &str) -> Result<Option<Vec<&Schema>>, OpErr> {
        match o.get(k).and_then(|v| v.as_array()) {
            None => Ok(None),
            Some(a) => {
                let mut v = Vec::new();
                for x in a {
                    v.push(self.schema(x.as_str().ok_or("schemata id")?)?);
                }
                Ok(Some(v))
            }
        }
    }
}

pub fn codec_from(j: Option<&J>) -> Result<Codec, OpErr> {
    let Some(j) = j else { return Ok(Codec::Null) };
    if j.is_null() {
        return Ok(Codec::Null);
    }
    let (name, level) = match j {
        J::String(s) => (s.as_str(), None),
        J::Object(o) => (
            o.get("name").and_then(|x| x.as_str()).unwrap_or("null"),
            o.get("level").and_then(|x| x.as_i64()),
        ),
        _ => return Err("bad codec".into()),
    };
    Ok(match name {
        "null" => Codec::Null,
        "deflate" => {
            use miniz_oxide::deflate::CompressionLevel as L;
            let l = match level {
                None => return Ok(Codec::Deflate(apache_avro::DeflateSettings::default())),
                Some(0) => L::NoCompression,
                Some(1) => L::BestSpeed,
                Some(6) => L::DefaultLevel,
                Some(9) => L::BestCompression,
                Some(10) => L::UberCompression,
                Some(-1) => L::DefaultCompression,
                Some(x) => return Err(format!("deflate level {x}").into()),
            };
            Codec::Deflate(apache_avro::DeflateSettings::new(l))
        }
        "snappy" => Codec::Snappy,
        "bzip2" => match level {
            None => Codec::Bzip2(apache_avro::Bzip2Settings::default()),
            Some(l) => Codec::Bzip2(apache_avro::Bzip2Settings::new(l as u8)),
        },
        #[cfg(feature = "ffi-codecs")]
        "xz" => match level {
            None => Codec::Xz(apache_avro::XzSettings::default()),
            Some(l) => Codec::Xz(apache_avro::XzSettings::new(l as u8)),
        },
        #[cfg(feature = "ffi-codecs")]
        "zstandard" => match level {
            None => Codec::Zstandard(apache_avro::ZstandardSettings::default()),
            Some(l) => Codec::Zstandard(apache_avro::ZstandardSettings::new(l as u8)),
        },
        other => return Err(format!("codec {other} not available in this build").into()),
    })
}

fn values_of(j: Option<&J>) -> Result<Vec<Value>, OpErr> {
    let mut out = Vec::new();
    for v in j.and_then(|x| x.as_array()).ok_or("missing value list")? {
        out.push(from_tagged(v)?);
    }
    Ok(out)
}

/// run a sub-call under catch_unwind and render its outcome as JSON
fn sub<T>(f: impl FnOnce() -> Result<T, Error>, render: impl FnOnce(T) -> J) -> J {
    match guard(f) {
        Ok(Ok(v)) => json!({"ok": render(v)}),
        Ok(Err(e)) => json!({"err": err_json(&e)}),
        Err(p) => json!({"panic": panic_json(&p)}),
    }
}

pub fn panic_json(p: &PanicInfo) -> J {
    json!({"msg": p.msg, "loc": p.loc, "site": p.site})
}

impl Ctx {
    pub fn op(&mut self, name: &str, o: &Map<String, J>) -> R {
        match name {
            // ------------------------------------------------------------ schemas
            "parse_schema" => {
                let s = Schema::parse_str(gs(o, "text")?)?;
                if let Some(sid) = o.get("sid").and_then(|x| x.as_str()) {
                    self.schemas.insert(sid.to_string(), s);
                }
                Ok(json!({}))
            }
            "parse_reader" => {
                let text = gs(o, "text")?;
                let s = Schema::parse_reader(&mut text.as_bytes())?;
                if let Some(sid) = o.get("sid").and_then(|x| x.as_str()) {
                    self.schemas.insert(sid.to_string(), s);
                }
                Ok(json!({}))
            }
            "parse_json" => {
                // Schema::parse on an already parsed serde_json::Value
                let v: J = serde_json::from_str(gs(o, "text")?)
                    .map_err(|e| OpErr::Harness(format!("not json: {e}")))?;
                let s = Schema::parse(&v)?;
                if let Some(sid) = o.get("sid").and_then(|x| x.as_str()) {
                    self.schemas.insert(sid.to_string(), s);
                }
                Ok(json!({}))
            }
            "parse_list" => {
                let texts: Vec<&str> = o
                    .get("texts")
                    .and_then(|x| x.as_array())
                    .ok_or("texts")?
                    .iter()
                    .map(|x| x.as_str().unwrap_or(""))
                    .collect();
                let v = Schema::parse_list(texts)?;
                let mut out = Vec::new();
                let sids = o.get("sids").and_then(|x| x.as_array());
                for (i, s) in v.into_iter().enumerate() {
                    out.push(json!({"dump": dump(&s), "json": serde_json::to_string(&s).ok()}));
                    if let Some(sids) = sids {
                        if let Some(sid) = sids.get(i).and_then(|x| x.as_str()) {
                            self.schemas.insert(sid.to_string(), s);
                        }
                    }
                }
                Ok(json!({"schemas": out}))
            }
            "parse_str_with_list" => {
                let texts: Vec<&str> = o
                    .get("texts")
                    .and_then(|x| x.as_array())
                    .ok_or("texts")?
                    .iter()
                    .map(|x| x.as_str().unwrap_or(""))
                    .collect();
                let (s, v) = Schema::parse_str_with_list(gs(o, "text")?, texts)?;
                let mut out = Vec::new();
                let sids = o.get("sids").and_then(|x| x.as_array());
                for (i, s2) in v.into_iter().enumerate() {
                    out.push(json!({"dump": dump(&s2)}));
                    if let Some(sids) = sids {
                        if let Some(sid) = sids.get(i).and_then(|x| x.as_str()) {
                            self.schemas.insert(sid.to_string(), s2);
                        }
                    }
                }
                let d = dump(&s);
                if let Some(sid) = o.get("sid").and_then(|x| x.as_str()) {
                    self.schemas.insert(sid.to_string(), s);
                }
                Ok(json!({"schema": d, "schemas": out}))
            }
            "schema_info" => {
                let s = self.schema(gs(o, "sid")?)?;
                let schemata: Vec<Schema> = self
                    .schemata(o, "schemata")?
                    .unwrap_or_default()
                    .into_iter()
                    .cloned()
                    .collect();
                let mut out = Map::new();
                let want: Vec<&str> = o
                    .get("want")
                    .and_then(|x| x.as_array())
                    .map(|a| a.iter().filter_map(|x| x.as_str()).collect())
                    .unwrap_or_else(|| vec!["json", "dump", "pcf"]);
                for w in want {
                    let r = match w {
                        "json" => sub(
                            || serde_json::to_string(s).map_err(|e| {
                                Error::new(apache_avro::error::Details::ConvertJsonToString(e))
                            }),
                            J::String,
                        ),
                        "dump" => sub(|| Ok(dump(s)), |x| x),
                        "pcf" => sub(|| Ok(s.canonical_form()), J::String),
                        "indep_pcf" => sub(|| s.independent_canonical_form(&schemata), J::String),
                        "fp_rabin" => sub(
                            || Ok(s.fingerprint::<apache_avro::rabin::Rabin>().bytes),
                            |b| J::String(hex(&b)),
                        ),
                        "fp_md5" => {
                            sub(|| Ok(s.fingerprint::<md5::Md5>().bytes), |b| J::String(hex(&b)))
                        }
                        "fp_sha256" => sub(
                            || Ok(s.fingerprint::<sha2::Sha256>().bytes),
                            |b| J::String(hex(&b)),
                        ),
                        "debug" => sub(|| Ok(format!("{s:?}").len()), |n| json!(n)),
                        "display" => sub(|| Ok(format!("{s}").len()), |n| json!(n)),
                        "resolved" => sub(
                            || {
                                let rs = ResolvedSchema::new(s)?;
                                let mut names: Vec<String> = rs
                                    .get_names()
                                    .keys()
                                    .map(|n: &Name| n.fullname(None))
                                    .collect();
                                names.sort();
                                Ok(names)
                            },
                            |n| json!(n),
                        ),
                        "self_eq" => sub(|| Ok(s == s), |b| json!(b)),
                        "custom_attributes" => {
                            sub(|| Ok(s.custom_attributes().cloned()), |a| json!(a))
                        }
                        _ => json!({"err": {"kind": "Harness", "msg": "unknown want"}}),
                    };
                    out.insert(w.to_string(), r);
                }
                Ok(J::Object(out))
            }
            "rabin" => {
                use apache_avro::rabin::Rabin;
                use md5::Digest as _;
                let data = unhex(gs(o, "bytes")?)?;
                let mut h = Rabin::default();
                // feed in chunks to exercise the update path
                let chunk = gu(o, "chunk").unwrap_or(usize::MAX).max(1);
                for c in data.chunks(chunk) {
                    h.update(c);
                }
                let out = h.finalize();
                Ok(json!({"fp": hex(&out)}))
            }
            // ------------------------------------------------------------ values
            "validate" => {
                let s = self.schema(gs(o, "sid")?)?;
                let v = from_tagged(o.get("value").ok_or("value")?)?;
                let ok = match self.schemata(o, "schemata")? {
                    Some(sch) => v.validate_schemata(&sch),
                    None => v.validate(s),
                };
                Ok(json!({"valid": ok}))
            }
            "datum_write" => {
                let s = self.schema(gs(o, "sid")?)?;
                let v = from_tagged(o.get("value").ok_or("value")?)?;
                let schemata = self.schemata(o, "schemata")?;
                let validate = gb(o, "validate", true);
                let both = o.get("validate").and_then(|x| x.as_str()) == Some("both");
                let mk = |validate: bool| -> Result<GenericDatumWriter<'_>, Error> {
                    match &schemata {
                        Some(sch) => GenericDatumWriter::builder(s)
                            .schemata(sch.clone())?
                            .validate(validate)
                            .build(),
                        None => GenericDatumWriter::builder(s).validate(validate).build(),
                    }
                };
                let mut sink = SharedSink::new(crate::exec_ocf::plan_from(o.get("sink_plan")));
                sink.0.borrow_mut().capture_sites = o.get("sink_plan").and_then(|p| p.get("capture")).is_some();
                let w = mk(validate || both)?;
                let r = w.write_value_ref(&mut sink, &v);
                let written = sink.bytes();
                let mut out = match r {
                    Ok(n) => json!({"bytes": hex(&written), "ret": n}),
                    Err(e) => json!({"write_err": err_json(&e), "leaked": hex(&written)}),
                };
                let (nw, nf) = sink.n_calls();
                out["n_write"] = json!(nw);
                out["n_flush"] = json!(nf);
                out["loss_site"] = json!(sink.loss_site());
                if both {
                    // same Value instance (same map iteration order) through the unvalidated writer
                    let mut sink2 = SharedSink::plain();
                    let w2 = mk(false)?;
                    let r2 = w2.write_value_ref(&mut sink2, &v);
                    out["off"] = match r2 {
                        Ok(n) => json!({"bytes": hex(&sink2.bytes()), "ret": n}),
                        Err(e) => json!({"write_err": err_json(&e), "leaked": hex(&sink2.bytes())}),
                    };
                }
                Ok(out)
            }
            "datum_write_ser" => {
                let s = self.schema(gs(o, "sid")?)?;
                let plan = o.get("plan").ok_or("plan")?;
                let schemata = self.schemata(o, "schemata")?;
                let tbs = gu(o, "target_block_size");
                let mut sink = SharedSink::new(crate::exec_ocf::plan_from(o.get("sink_plan")));
                sink.0.borrow_mut().capture_sites = o.get("sink_plan").and_then(|p| p.get("capture")).is_some();
                let legacy = gb(o, "legacy_fn", false);
                let r = if legacy {
                    // the free function documented to return the number of bytes written
                    let rs = match &schemata {
                        Some(sch) => ResolvedSchema::new_with_schemata(sch.clone())?,
                        None => ResolvedSchema::new(s)?,
                    };
                    apache_avro::write_avro_datum_ref(s, rs.get_names(), &Plan(plan), &mut sink)
                } else {
                    let b = GenericDatumWriter::builder(s).maybe_target_block_size(tbs);
                    let w = match schemata {
                        Some(sch) => b.schemata(sch)?.build()?,
                        None => b.build()?,
                    };
                    w.write_ser(&mut sink, &Plan(plan))
                };
                let written = sink.bytes();
                let (nw, nf) = sink.n_calls();
                let site = sink.loss_site();
                match r {
                    Ok(n) => Ok(json!({"bytes": hex(&written), "ret": n, "n_write": nw, "n_flush": nf, "loss_site": site, "count_documented": true})),
                    Err(e) => Ok(json!({"write_err": err_json(&e), "leaked": hex(&written), "n_write": nw, "n_flush": nf})),
                }
            }
            "datum_read" => {
                let s = self.schema(gs(o, "sid")?)?;
                let data = unhex(gs(o, "bytes")?)?;
                let n = gu(o, "n").unwrap_or(1);
                let wsch = self.schemata(o, "schemata")?;
                let rsch = self.schemata(o, "reader_schemata")?;
                let b = GenericDatumReader::builder(s);
                let rd = match o.get("reader_sid").and_then(|x| x.as_str()) {
                    Some(rsid) => {
                        let r = self.schema(rsid)?;
                        match (wsch, rsch) {
                            (Some(w), Some(rr)) => {
                                b.writer_schemata(w)?.reader_schema(r).reader_schemata(rr)?.build()?
                            }
                            (Some(w), None) => b.writer_schemata(w)?.reader_schema(r).build()?,
                            (None, Some(rr)) => b.reader_schema(r).reader_schemata(rr)?.build()?,
                            (None, None) => b.reader_schema(r).build()?,
                        }
                    }
                    None => match wsch {
                        Some(w) => b.writer_schemata(w)?.build()?,
                        None => b.build()?,
                    },
                };
                let mut cr = CountingRead::new(&data);
                let mut items = Vec::new();
                for _ in 0..n {
                    let before = cr.pos;
                    match rd.read_value(&mut cr) {
                        Ok(v) => items.push(json!({"value": to_tagged(&v), "consumed": cr.pos - before})),
                        Err(e) => {
                            items.push(json!({"err": err_json(&e), "consumed": cr.pos - before}));
                            break;
                        }
                    }
                }
                Ok(json!({"items": items, "pos": cr.pos}))
            }
            "resolve" => {
                let s = self.schema(gs(o, "sid")?)?;
                let v = from_tagged(o.get("value").ok_or("value")?)?;
                let twice = gb(o, "twice", false);
                let r = match self.schemata(o, "schemata")? {
                    Some(sch) => v.resolve_schemata(s, sch.clone())?,
                    None => v.resolve(s)?,
                };
                let mut out = json!({"value": to_tagged(&r), "valid": r.validate(s)});
                if twice {
                    out["again"] = match r.clone().resolve(s) {
                        Ok(r2) => json!({"value": to_tagged(&r2)}),
                        Err(e) => json!({"err": err_json(&e)}),
                    };
                }
                Ok(out)
            }
            "can_read" => {
                let w = self.schema(gs(o, "w")?)?;
                let r = self.schema(gs(o, "r")?)?;
                Ok(match SchemaCompatibility::can_read(w, r) {
                    Ok(c) => json!({"compat": format!("{c:?}")}),
                    Err(e) => json!({"incompat": format!("{e:?}").chars().take(200).collect::<String>()}),
                })
            }
            "mutual_read" => {
                let w = self.schema(gs(o, "a")?)?;
                let r = self.schema(gs(o, "b")?)?;
                Ok(match SchemaCompatibility::mutual_read(w, r) {
                    Ok(c) => json!({"compat": format!("{c:?}")}),
                    Err(e) => json!({"incompat": format!("{e:?}").chars().take(200).collect::<String>()}),
                })
            }
            // ------------------------------------------------------------ container files
            "writer_history" => crate::exec_ocf::writer_history(self, o),
            "reader_read" => crate::exec_ocf::reader_read(self, o),
            // ------------------------------------------------------------ single object
            "so_history" => crate::exec_ocf::so_history(self, o),
            "damage_scan" => crate::scan::damage_scan(o),
            "sink_scan" => crate::sinkscan::sink_scan(self, o),
            "fuzz_decode" => crate::fuzzdec::fuzz_decode(self, o),
            "fuzz_container" => crate::fuzzdec::fuzz_container(o),
            "fuzz_codec" => crate::fuzzdec::fuzz_codec(o),
            "fuzz_single_object" => crate::fuzzdec::fuzz_single_object(self, o),
            "so_read" => {
                let s = self.schema(gs(o, "sid")?)?;
                let data = unhex(gs(o, "bytes")?)?;
                let rd = match o.get("header").and_then(|x| x.as_str()) {
                    Some(h) => GenericSingleObjectReader::builder().schema(s.clone()).header(unhex(h)?).build()?,
                    None => GenericSingleObjectReader::builder().schema(s.clone()).build()?,
                };
                let mut cr = CountingRead::new(&data);
                let r = rd.read_value(&mut cr);
                Ok(match r {
                    Ok(v) => json!({"value": to_tagged(&v), "pos": cr.pos}),
                    Err(e) => json!({"read_err": err_json(&e), "pos": cr.pos}),
                })
            }
            // ------------------------------------------------------------ codecs
            "codec_compress" => {
                let c = codec_from(o.get("codec"))?;
                let mut data = unhex(gs(o, "bytes")?)?;
                c.compress(&mut data)?;
                Ok(json!({"bytes": hex(&data)}))
            }
            "codec_decompress" => {
                let c = codec_from(o.get("codec"))?;
                let mut data = unhex(gs(o, "bytes")?)?;
                c.decompress(&mut data)?;
                Ok(json!({"bytes": hex(&data)}))
            }
            #[cfg(feature = "ffi-codecs")]
            "ref_zstd_compress" => {
                let data = unhex(gs(o, "bytes")?)?;
                let lvl = o.get("level").and_then(|x| x.as_i64()).unwrap_or(3) as i32;
                let out = zstd::bulk::compress(&data, lvl).map_err(|e| e.to_string())?;
                Ok(json!({"bytes": hex(&out)}))
            }
            #[cfg(feature = "ffi-codecs")]
            "ref_zstd_decompress" => {
                let data = unhex(gs(o, "bytes")?)?;
                let cap = gu(o, "cap").unwrap_or(64 << 20);
                match zstd::bulk::decompress(&data, cap) {
                    Ok(out) => Ok(json!({"bytes": hex(&out)})),
                    Err(e) => Ok(json!({"ref_err": e.to_string()})),
                }
            }
            "settings" => {
                let mut out = Map::new();
                if let Some(n) = o.get("max_allocation_bytes").and_then(|x| x.as_u64()) {
                    out.insert(
                        "max_allocation_bytes".into(),
                        json!(apache_avro::util::max_allocation_bytes(n as usize)),
                    );
                }
                if let Some(b) = o.get("human_readable").and_then(|x| x.as_bool()) {
                    out.insert(
                        "human_readable".into(),
                        json!(apache_avro::util::set_serde_human_readable(b)),
                    );
                }
                Ok(J::Object(out))
            }
            other => Err(OpErr::Harness(format!("unknown op {other}"))),
        }
    }
}

pub fn run(script: &str, events: &str) -> i32 {
    let inp = match std::fs::File::open(script) {
        Ok(f) => BufReader::new(f),
        Err(e) => {
            eprintln!("cannot open {script}: {e}");
            return 3;
        }
    };
    let mut out = BufWriter::new(std::fs::File::create(events).expect("create events"));
    let mut ctx = Ctx {
        schemas: HashMap::new(),
    };
    for line in inp.lines() {
        let line = line.expect("read script");
        if line.trim().is_empty() {
            continue;
        }
        let j: J = match serde_json::from_str(&line) {
            Ok(j) => j,
            Err(e) => {
                let _ = writeln!(out, "{}", json!({"harness_error": format!("bad script line: {e}")}));
                continue;
            }
        };
        let o = j.as_object().cloned().unwrap_or_default();
        let id = o.get("id").cloned().unwrap_or(J::Null);
        let name = o.get("op").and_then(|x| x.as_str()).unwrap_or("").to_string();
        let _ = writeln!(out, "{}", json!({"id": id, "call": name}));
        let _ = out.flush();
        crate::alloc::reset();
        let c0 = thread_cpu_ns();
        let res = guard(|| ctx.op(&name, &o));
        let cpu_us = (thread_cpu_ns().saturating_sub(c0)) / 1000;
        let st = crate::alloc::stats();
        let al = json!({"max": st.max_req, "peak": st.peak_live_delta, "n": st.n, "cpu_us": cpu_us});
        let ev = match res {
            Ok(Ok(v)) => json!({"id": id, "ok": v, "alloc": al}),
            Ok(Err(OpErr::Lib(e))) => json!({"id": id, "err": err_json(&e), "alloc": al}),
            Ok(Err(OpErr::Harness(m))) => json!({"id": id, "harness_error": m}),
            Err(p) => json!({"id": id, "panic": panic_json(&p), "alloc": al}),
        };
        let _ = writeln!(out, "{ev}");
    }
    let _ = out.flush();
    0
}

#[repr(C)]
struct Timespec {
    tv_sec: i64,
    tv_nsec: i64,
}

unsafe extern "C" {
    fn clock_gettime(clk: i32, ts: *mut Timespec) -> i32;
}

/// CPU time consumed by the calling thread (CLOCK_THREAD_CPUTIME_ID): advances only while the
/// thread is scheduled, so verdicts based on it do not depend on machine load.
pub fn thread_cpu_ns() -> u64 {
    let mut ts = Timespec {
        tv_sec: 0,
        tv_nsec: 0,
    };
    unsafe {
        clock_gettime(3, &mut ts);
    }
    (ts.tv_sec as u64) * 1_000_000_000 + ts.tv_nsec as u64
}
