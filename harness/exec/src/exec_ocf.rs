//! Container-file and single-object ops: writer histories with per-step state snapshots, reads
//! with per-item consumption counts.

use crate::dump::dump;
use crate::dynser::Plan;
use crate::exec::{Ctx, OpErr, codec_from, err_json};
use crate::sink::{self, Accept, CountingRead, SharedSink};
use crate::tagged::{from_tagged, hex, to_tagged, unhex};
use apache_avro::types::Value;
use apache_avro::{GenericSingleObjectWriter, Reader, Writer};
use serde_json::{Map, Value as J, json};
use std::collections::HashMap;

type R = Result<J, OpErr>;

pub fn plan_from(j: Option<&J>) -> sink::Plan {
    let mut p = sink::Plan::default();
    let Some(o) = j.and_then(|x| x.as_object()) else { return p };
    if let Some(k) = o.get("k").and_then(|x| x.as_u64()) {
        p.accept = Accept::K(k as usize);
    }
    if let Some(a) = o.get("rand").and_then(|x| x.as_array()) {
        p.accept = Accept::Rand(
            a[0].as_u64().unwrap_or(1),
            a[1].as_u64().unwrap_or(8) as usize,
        );
    }
    if let Some(a) = o.get("fail_write").and_then(|x| x.as_array()) {
        p.fail_write = Some((
            a[0].as_u64().unwrap_or(0) as usize,
            sink::kind_from_str(a[1].as_str().unwrap_or("Other")),
        ));
    }
    if let Some(a) = o.get("fail_flush").and_then(|x| x.as_array()) {
        p.fail_flush = Some((
            a[0].as_u64().unwrap_or(0) as usize,
            sink::kind_from_str(a[1].as_str().unwrap_or("Other")),
        ));
    }
    p.sticky = o.get("sticky").and_then(|x| x.as_bool()).unwrap_or(false);
    p
}

fn res_json(r: Result<usize, apache_avro::Error>) -> J {
    match r {
        Ok(n) => json!({"ok": n}),
        Err(e) => json!({"err": err_json(&e)}),
    }
}

#[cfg(feature = "hooks")]
fn wstate<W: std::io::Write>(w: &Writer<'_, W>, full: bool) -> J {
    let st = w.verif_state();
    if full {
        json!({"nv": st.num_values, "hh": st.has_header, "bl": st.buffer.len(), "buf": hex(&st.buffer), "bs": st.block_size})
    } else {
        json!({"nv": st.num_values, "hh": st.has_header, "bl": st.buffer.len()})
    }
}
#[cfg(not(feature = "hooks"))]
fn wstate<W: std::io::Write>(_w: &Writer<'_, W>, _full: bool) -> J {
    J::Null
}

fn values_of(j: Option<&J>) -> Result<Vec<Value>, OpErr> {
    let mut out = Vec::new();
    for v in j.and_then(|x| x.as_array()).ok_or("missing value list")? {
        out.push(from_tagged(v)?);
    }
    Ok(out)
}

pub fn writer_history(ctx: &Ctx, o: &Map<String, J>) -> R {
    let s = ctx.schema(o.get("sid").and_then(|x| x.as_str()).ok_or("sid")?)?;
    let schemata = ctx.schemata(o, "schemata")?;
    let codec = codec_from(o.get("codec"))?;
    let full_state = o.get("full_state").and_then(|x| x.as_bool()).unwrap_or(true);
    let sink = SharedSink::new(plan_from(o.get("sink_plan")));
    sink.0.borrow_mut().capture_sites = o.get("sink_plan").and_then(|p| p.get("capture")).is_some();
    let mut marker: Option<[u8; 16]> = None;
    if let Some(m) = o.get("marker").and_then(|x| x.as_str()) {
        let b = unhex(m)?;
        marker = Some(b.as_slice().try_into().map_err(|_| "marker must be 16 bytes")?);
    }
    let mut has_header = None;
    if let Some(a) = o.get("append_to").and_then(|x| x.as_object()) {
        let prefix = unhex(a.get("prefix").and_then(|x| x.as_str()).unwrap_or(""))?;
        sink.0.borrow_mut().data = prefix;
        has_header = Some(true);
    }
    if let Some(h) = o.get("has_header").and_then(|x| x.as_bool()) {
        has_header = Some(h);
    }
    let mut meta = HashMap::new();
    if let Some(a) = o.get("meta_pre").and_then(|x| x.as_array()) {
        for kv in a {
            let kv = kv.as_array().ok_or("meta_pre item")?;
            meta.insert(
                kv[0].as_str().unwrap_or("").to_string(),
                Value::Bytes(unhex(kv[1].as_str().unwrap_or(""))?),
            );
        }
    }
    let use_append_to_ctor = o.get("append_to_ctor").and_then(|x| x.as_bool()).unwrap_or(false);
    let w = if use_append_to_ctor {
        let m = marker.ok_or("append_to_ctor needs marker")?;
        match schemata {
            Some(sch) => Writer::append_to_with_codec_schemata(s, sch, sink.clone(), codec, m)?,
            None => Writer::append_to_with_codec(s, sink.clone(), codec, m)?,
        }
    } else {
        let b = Writer::builder()
            .schema(s)
            .maybe_schemata(schemata)
            .writer(sink.clone())
            .codec(codec)
            .maybe_block_size(o.get("block_size").and_then(|x| x.as_u64()).map(|x| x as usize))
            .maybe_marker(marker)
            .maybe_has_header(has_header)
            .maybe_map_array_target_block_size(
                o.get("target_block").and_then(|x| x.as_u64()).map(|x| x as usize),
            );
        if meta.is_empty() {
            b.build()?
        } else {
            b.user_metadata(meta).build()?
        }
    };
    let init_state = wstate(&w, full_state);
    let sink0 = sink.len();
    let mut w = Some(w);
    let mut steps_out = Vec::new();
    let steps = o.get("steps").and_then(|x| x.as_array()).ok_or("steps")?;
    let mut final_res = J::Null;
    for st in steps {
        let so = st.as_object().ok_or("step")?;
        let op = so.get("o").and_then(|x| x.as_str()).unwrap_or("");
        let Some(wr) = w.as_mut() else {
            return Err(OpErr::Harness("step after writer was consumed".into()));
        };
        let calls_before = sink.n_calls();
        let r: J = match op {
            "append_value" => res_json(wr.append_value(from_tagged(so.get("v").ok_or("v")?)?)),
            #[allow(deprecated)]
            "append" => res_json(wr.append(from_tagged(so.get("v").ok_or("v")?)?)),
            "append_value_ref" => {
                res_json(wr.append_value_ref(&from_tagged(so.get("v").ok_or("v")?)?))
            }
            "unvalidated_append_value" => {
                res_json(wr.unvalidated_append_value(from_tagged(so.get("v").ok_or("v")?)?))
            }
            "unvalidated_append_value_ref" => {
                res_json(wr.unvalidated_append_value_ref(&from_tagged(so.get("v").ok_or("v")?)?))
            }
            "append_ser" => res_json(wr.append_ser(Plan(so.get("plan").ok_or("plan")?))),
            "extend" => res_json(wr.extend(values_of(so.get("vs"))?)),
            "extend_from_slice" => res_json(wr.extend_from_slice(&values_of(so.get("vs"))?)),
            "extend_ser" => {
                let plans = so.get("plans").and_then(|x| x.as_array()).ok_or("plans")?;
                res_json(wr.extend_ser(plans.iter().map(Plan)))
            }
            "flush" => res_json(wr.flush()),
            "add_meta" => {
                let k = so.get("k").and_then(|x| x.as_str()).unwrap_or("").to_string();
                let v = unhex(so.get("v").and_then(|x| x.as_str()).unwrap_or(""))?;
                match wr.add_user_metadata(k, v) {
                    Ok(()) => json!({"ok": 0}),
                    Err(e) => json!({"err": err_json(&e)}),
                }
            }
            "reset" => {
                wr.reset();
                json!({"ok": 0})
            }
            "into_inner" => {
                let wr = w.take().unwrap();
                final_res = match wr.into_inner() {
                    Ok(_) => json!({"ok": 0}),
                    Err(e) => json!({"err": err_json(&e)}),
                };
                final_res.clone()
            }
            "drop" => {
                drop(w.take());
                json!({"ok": 0})
            }
            other => return Err(OpErr::Harness(format!("unknown step {other}"))),
        };
        let calls_after = sink.n_calls();
        let state = match w.as_ref() {
            Some(wr) => wstate(wr, full_state),
            None => J::Null,
        };
        let counted = !matches!(op, "add_meta" | "reset" | "into_inner" | "drop");
        steps_out.push(json!({"r": r, "sink": sink.len(), "st": state, "counted": counted,
            "wcalls": calls_after.0 - calls_before.0, "fcalls": calls_after.1 - calls_before.1}));
    }
    // writer still alive at the end: drop it (Drop flushes)
    let alive = w.is_some();
    drop(w);
    let site = sink.loss_site();
    let s = sink.0.borrow();
    Ok(json!({"init": init_state, "steps": steps_out, "bytes": hex(&s.data), "alive_at_end": alive, "loss_site": site, "sink0": sink0,
        "n_write": s.n_write, "n_flush": s.n_flush, "cleared": s.cleared}))
}

pub fn reader_read(ctx: &Ctx, o: &Map<String, J>) -> R {
    let data = unhex(o.get("bytes").and_then(|x| x.as_str()).ok_or("bytes")?)?;
    let max_items = o.get("max_items").and_then(|x| x.as_u64()).unwrap_or(1_000_000) as usize;
    let brief = o.get("brief").and_then(|x| x.as_bool()).unwrap_or(false);
    let reader_schema = match o.get("reader_sid").and_then(|x| x.as_str()) {
        Some(id) => Some(ctx.schema(id)?),
        None => None,
    };
    let schemata = ctx.schemata(o, "schemata")?;
    let cr = CountingRead::new(&data);
    let b = Reader::builder(cr)
        .maybe_reader_schema(reader_schema)
        .maybe_schemata(schemata);
    let mut rd = match b.build() {
        Ok(r) => r,
        Err(e) => return Ok(json!({"open_err": err_json(&e)})),
    };
    let ws = dump(rd.writer_schema());
    let ws_json = serde_json::to_string(rd.writer_schema()).ok();
    let mut meta: Vec<(String, String)> = rd
        .user_metadata()
        .iter()
        .map(|(k, v)| (k.clone(), hex(v)))
        .collect();
    meta.sort();
    let mut items = Vec::new();
    let mut n_ok = 0usize;
    let mut hook_bad: Vec<J> = Vec::new();
    let mut capped = false;
    loop {
        if items.len() >= max_items {
            capped = true;
            break;
        }
        let Some(it) = rd.next() else { break };
        #[cfg(feature = "hooks")]
        let hk = rd.verif_block_state();
        #[cfg(not(feature = "hooks"))]
        let hk = (0usize, 0usize, 0usize);
        match it {
            Ok(v) => {
                n_ok += 1;
                // block exhausted => every payload byte was consumed
                #[cfg(feature = "hooks")]
                if hk.0 == 0 && hk.1 != hk.2 {
                    hook_bad.push(json!({"item": items.len(), "left": hk.0, "idx": hk.1, "len": hk.2}));
                }
                if brief {
                    items.push(json!({"v": 1, "left": hk.0}));
                } else {
                    items.push(json!({"value": to_tagged(&v), "left": hk.0}));
                }
            }
            Err(e) => items.push(json!({"err": err_json(&e)})),
        }
    }
    // after the iterator ended, further calls must keep returning None
    let again = if capped { false } else { rd.next().is_some() };
    Ok(json!({"writer_schema": ws, "writer_schema_json": ws_json, "user_metadata": meta,
        "items": items, "n_ok": n_ok, "resurrected": again, "hook_bad": hook_bad, "capped": capped}))
}

pub fn so_history(ctx: &Ctx, o: &Map<String, J>) -> R {
    let s = ctx.schema(o.get("sid").and_then(|x| x.as_str()).ok_or("sid")?)?;
    let cap = o.get("cap").and_then(|x| x.as_u64()).unwrap_or(64) as usize;
    let mut w = match o.get("glue").and_then(|x| x.as_str()) {
        Some(u) => {
            let id = uuid::Uuid::from_slice(&unhex(u)?).map_err(|e| e.to_string())?;
            GenericSingleObjectWriter::new_with_capacity_and_header_builder(
                s,
                cap,
                &apache_avro::headers::GlueSchemaUuidHeader::from_uuid(id),
            )?
        }
        None => GenericSingleObjectWriter::new_with_capacity(s, cap)?,
    };
    #[cfg(feature = "hooks")]
    let header = hex(w.verif_buffer());
    #[cfg(not(feature = "hooks"))]
    let header = String::new();
    let mut out = Vec::new();
    let (mut nw, mut nf) = (0usize, 0usize);
    let mut loss_site = "?".to_string();
    for st in o.get("steps").and_then(|x| x.as_array()).ok_or("steps")? {
        let so = st.as_object().ok_or("step")?;
        let v = from_tagged(so.get("v").ok_or("v")?)?;
        let mut sink = SharedSink::new(plan_from(so.get("sink_plan").or(o.get("sink_plan"))));
        sink.0.borrow_mut().capture_sites = o.get("sink_plan").and_then(|p| p.get("capture")).is_some();
        let r = if so.get("o").and_then(|x| x.as_str()) == Some("write_value") {
            w.write_value(v, &mut sink)
        } else {
            w.write_value_ref(&v, &mut sink)
        };
        #[cfg(feature = "hooks")]
        let buf = hex(w.verif_buffer());
        #[cfg(not(feature = "hooks"))]
        let buf = String::new();
        let (a, b) = sink.n_calls();
        nw += a;
        nf += b;
        if loss_site == "?" {
            loss_site = sink.loss_site();
        }
        out.push(json!({"r": res_json(r), "bytes": hex(&sink.bytes()), "buf": buf}));
    }
    Ok(json!({"header": header, "steps": out, "n_write": nw, "n_flush": nf, "loss_site": loss_site}))
}
