//! C13 engine: one write scenario (an executor op description) run against an enumerated family of
//! sink fault plans; each faulty run is compared with the fault-free baseline.

use crate::exec::{Ctx, OpErr};
use crate::panics::guard;
use serde_json::{Map, Value as J, json};
use std::collections::BTreeMap;

struct View {
    /// every call of the scenario returned Ok
    all_ok: bool,
    /// delivered bytes (one string per sink)
    delivered: Vec<String>,
    /// (returned count, bytes the sink accepted during that call) for calls documented to return a count
    counts: Vec<(u64, u64)>,
    n_write: usize,
    n_flush: usize,
    panicked: Option<J>,
}

fn view(kind: &str, r: &Result<Result<J, String>, J>) -> View {
    let mut v = View {
        all_ok: false,
        delivered: vec![],
        counts: vec![],
        n_write: 0,
        n_flush: 0,
        panicked: None,
    };
    let j = match r {
        Err(p) => {
            v.panicked = Some(p.clone());
            return v;
        }
        Ok(Err(_)) => return v,
        Ok(Ok(j)) => j,
    };
    match kind {
        "writer_history" => {
            let steps = j["steps"].as_array().cloned().unwrap_or_default();
            v.all_ok = steps.iter().all(|s| s["r"].get("ok").is_some());
            v.delivered.push(j["bytes"].as_str().unwrap_or("").to_string());
            let mut prev = j["sink0"].as_u64().unwrap_or(0);
            for s in &steps {
                let cur = s["sink"].as_u64().unwrap_or(0);
                if let Some(n) = s["r"].get("ok").and_then(|x| x.as_u64()) {
                    if s["counted"].as_bool().unwrap_or(false) {
                        v.counts.push((n, cur.saturating_sub(prev)));
                    }
                }
                prev = cur;
            }
            v.n_write = j["n_write"].as_u64().unwrap_or(0) as usize;
            v.n_flush = j["n_flush"].as_u64().unwrap_or(0) as usize;
        }
        "so_history" => {
            let steps = j["steps"].as_array().cloned().unwrap_or_default();
            v.all_ok = steps.iter().all(|s| s["r"].get("ok").is_some());
            for s in &steps {
                v.delivered.push(s["bytes"].as_str().unwrap_or("").to_string());
                if let Some(n) = s["r"].get("ok").and_then(|x| x.as_u64()) {
                    v.counts.push((n, (s["bytes"].as_str().unwrap_or("").len() / 2) as u64));
                }
            }
            v.n_write = j["n_write"].as_u64().unwrap_or(0) as usize;
            v.n_flush = j["n_flush"].as_u64().unwrap_or(0) as usize;
        }
        _ => {
            // datum_write / datum_write_ser
            v.all_ok = j.get("bytes").is_some();
            v.delivered
                .push(j.get("bytes").or(j.get("leaked")).and_then(|x| x.as_str()).unwrap_or("").to_string());
            if j.get("count_documented").and_then(|x| x.as_bool()).unwrap_or(false) {
                if let Some(n) = j.get("ret").and_then(|x| x.as_u64()) {
                    v.counts.push((n, (v.delivered[0].len() / 2) as u64));
                }
            }
            v.n_write = j["n_write"].as_u64().unwrap_or(0) as usize;
            v.n_flush = j["n_flush"].as_u64().unwrap_or(0) as usize;
        }
    }
    v
}

pub fn sink_scan(ctx: &mut Ctx, o: &Map<String, J>) -> Result<J, OpErr> {
    let scen = o.get("scenario").and_then(|x| x.as_object()).ok_or("scenario")?.clone();
    let kind = scen.get("op").and_then(|x| x.as_str()).ok_or("scenario.op")?.to_string();
    let thorough = o.get("thorough").and_then(|x| x.as_bool()).unwrap_or(false);
    let mut run = |plan: Option<J>, capture: bool| -> Result<Result<J, String>, J> {
        let mut s = scen.clone();
        if let Some(p) = plan {
            let mut p = p;
            if capture {
                p["capture"] = json!(true);
            }
            s.insert("sink_plan".into(), p);
        }
        match guard(|| ctx.op(&kind, &s)) {
            Ok(Ok(j)) => Ok(Ok(j)),
            Ok(Err(OpErr::Lib(e))) => Ok(Err(e.to_string())),
            Ok(Err(OpErr::Harness(m))) => Ok(Err(format!("HARNESS {m}"))),
            Err(p) => Err(crate::exec::panic_json(&p)),
        }
    };
    let base_r = run(None, false);
    if let Ok(Err(m)) = &base_r {
        if m.starts_with("HARNESS") {
            return Err(OpErr::Harness(m.clone()));
        }
    }
    let base = view(&kind, &base_r);
    if !base.all_ok || base.panicked.is_some() {
        return Ok(json!({"baseline_not_ok": true, "detail": format!("{:?}", base_r.as_ref().map(|x| x.as_ref().map(|j| j.to_string().chars().take(300).collect::<String>())))}));
    }
    let mut viol: BTreeMap<String, (usize, J)> = BTreeMap::new();
    let mut add = |sig: String, d: J| {
        viol.entry(sig).or_insert((0, d)).0 += 1;
    };
    for (ret, acc) in &base.counts {
        if ret != acc {
            add("count-differs-without-faults".into(), json!({"returned": ret, "accepted": acc}));
        }
    }
    let mut variants: std::collections::HashSet<Vec<String>> = std::collections::HashSet::new();
    variants.insert(base.delivered.clone());
    // ---- plan family
    let mut plans: Vec<(String, J)> = Vec::new();
    for k in [1u64, 2, 3, 7, 64] {
        plans.push((format!("accept-{k}"), json!({"k": k})));
    }
    for s in 0..(if thorough { 6 } else { 2 }) {
        plans.push(("accept-random".into(), json!({"rand": [s * 7919 + 13, 9]})));
    }
    let kinds = ["Other", "WriteZero", "Interrupted"];
    for i in 0..base.n_write {
        for kd in kinds {
            plans.push((format!("fail-write-{kd}"), json!({"fail_write": [i, kd]})));
        }
        plans.push(("fail-write-sticky".into(), json!({"fail_write": [i, "Other"], "sticky": true})));
    }
    for i in 0..base.n_flush {
        for kd in kinds {
            plans.push((format!("fail-flush-{kd}"), json!({"fail_flush": [i, kd]})));
        }
    }
    if thorough {
        // short writes combined with an error at write call i (indices counted under accept-1)
        let n1 = base.delivered.iter().map(|d| d.len() / 2).sum::<usize>().min(400);
        for i in 0..n1 {
            plans.push(("accept-1+fail-write".into(), json!({"k": 1, "fail_write": [i, "Other"]})));
        }
    }
    let mut n_plans = 0usize;
    let mut continuations: Vec<J> = Vec::new();
    let mut n_err_surfaced = 0usize;
    let mut n_all_ok_same = 0usize;
    let mut by_plan: BTreeMap<String, usize> = BTreeMap::new();
    for (name, plan) in plans {
        n_plans += 1;
        *by_plan.entry(name.clone()).or_insert(0) += 1;
        let r = run(Some(plan.clone()), false);
        let v = view(&kind, &r);
        if let Some(p) = &v.panicked {
            add(format!("panic-under-faulty-sink plan={name} site={}", p["site"].as_str().unwrap_or("?")), json!({"plan": plan, "panic": p}));
            continue;
        }
        if !v.all_ok {
            n_err_surfaced += 1;
            // a transient fault of a container history: an operation failed, the sink works again, the history goes on.
            // Recorded for the offline oracle (clean failure at a header/block boundary + later Ok => nothing may be missing)
            if kind == "writer_history" && name.starts_with("fail-write-") && name != "fail-write-sticky" {
                if let Ok(Ok(j)) = &r {
                    let steps = j["steps"].as_array().cloned().unwrap_or_default();
                    let first_fail = steps.iter().position(|s| s["r"].get("ok").is_none());
                    let n_failed = steps.iter().filter(|s| s["r"].get("ok").is_none()).count();
                    let failed_idx: Vec<usize> = steps.iter().enumerate().filter(|(_, s)| s["r"].get("ok").is_none()).map(|(i, _)| i).collect();
                    if let Some(ff) = first_fail {
                        if ff + 1 < steps.len() && steps.last().map(|s| s["r"].get("ok").is_some()).unwrap_or(false) {
                            let fin = j["bytes"].as_str().unwrap_or("").to_string();
                            let same = variants.iter().any(|b| b.len() == 1 && b[0] == fin);
                            continuations.push(json!({"plan": plan, "kind": name, "first_failed_step": ff, "failed_steps": n_failed, "failed_step_indices": failed_idx,
                                "sink_len_at_failure": steps[ff]["sink"], "final_equals_a_baseline": same,
                                "final_len": fin.len() / 2, "final": if same { J::Null } else { json!(fin) }}));
                        }
                    }
                }
            }
            continue;
        }
        if !variants.contains(&v.delivered) {
            // the container header's metadata map is written in HashMap order, which differs from
            // writer to writer: collect more fault-free baselines before calling it a loss
            for _ in 0..40 {
                if let Ok(Ok(_)) = &base_r {
                    let b2 = view(&kind, &run(None, false));
                    if b2.all_ok {
                        variants.insert(b2.delivered);
                    }
                }
                if variants.contains(&v.delivered) {
                    break;
                }
            }
        }
        if !variants.contains(&v.delivered) {
            // attribute: rerun with call-site capture
            let r2 = run(Some(plan.clone()), true);
            let site = match &r2 {
                Ok(Ok(j)) => j.get("loss_site").and_then(|x| x.as_str()).unwrap_or("?").to_string(),
                _ => "?".to_string(),
            };
            add(
                format!("silent-loss plan={name} site={site}"),
                json!({"plan": plan, "delivered_len": v.delivered.iter().map(|d| d.len() / 2).sum::<usize>(), "expected_len": base.delivered.iter().map(|d| d.len() / 2).sum::<usize>()}),
            );
            continue;
        }
        n_all_ok_same += 1;
        for (ret, acc) in &v.counts {
            if ret != acc {
                add(format!("count-differs plan={name}"), json!({"plan": plan, "returned": ret, "accepted": acc}));
                break;
            }
        }
    }
    let violations: Vec<J> = viol.into_iter().map(|(k, (n, d))| json!({"sig": k, "count": n, "first": d})).collect();
    Ok(json!({"plans": n_plans, "by_plan": by_plan, "errors_surfaced": n_err_surfaced, "all_ok_and_identical": n_all_ok_same,
        "continuations": continuations, "baseline": if kind == "writer_history" { json!(base.delivered.first()) } else { J::Null },
        "baseline_sink_calls": [base.n_write, base.n_flush], "baseline_bytes": base.delivered.iter().map(|d| d.len() / 2).sum::<usize>(), "violations": violations}))
}
