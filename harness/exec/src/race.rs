//! C19 engine: one fresh process per trial. N threads released by a spin barrier race to set / use
//! the process-wide settings; every call is recorded {thread, op, proposed, returned, t_call,
//! t_ret} in a per-thread vector (the monitor shares nothing while the race runs). Afterwards,
//! single-threaded: peek hooks, behavioural probes and the uniformity sweep of the limit in force.

use crate::anyvalue::AnyValue;
use crate::exec::err_kind;
use crate::fuzzdec::zigzag_varint;
use crate::panics::guard;
use apache_avro::reader::datum::GenericDatumReader;
use apache_avro::schema_equality::{SchemataEq, set_schemata_equality_comparator};
use apache_avro::types::Value;
use apache_avro::validator::{
    EnumSymbolNameValidator, RecordFieldNameValidator, SchemaNameValidator, SchemaNamespaceValidator,
    set_enum_symbol_name_validator, set_record_field_name_validator, set_schema_name_validator,
    set_schema_namespace_validator,
};
use apache_avro::{AvroResult, Codec, Schema};
use serde_json::{Value as J, json};
use std::sync::Arc;
use std::sync::atomic::{AtomicUsize, Ordering};
use std::time::Instant;

fn std_name_ok(s: &str) -> bool {
    let mut cs = s.chars();
    match cs.next() {
        Some(c) if c.is_ascii_alphabetic() || c == '_' => {}
        _ => return false,
    }
    cs.all(|c| c.is_ascii_alphanumeric() || c == '_')
}

/// accepts what the specification accepts plus the probe token of thread `id`
struct V(usize);
fn probe(id: usize) -> String {
    format!("p${id}")
}
impl SchemaNameValidator for V {
    fn validate(&self, name: &str) -> AvroResult<usize> {
        let last = name.rsplit('.').next().unwrap_or(name);
        if last == probe(self.0) || name.split('.').all(std_name_ok) {
            Ok(name.len() - last.len())
        } else {
            Err(apache_avro::error::Details::InvalidSchemaName(name.to_string(), "probe").into())
        }
    }
}
impl SchemaNamespaceValidator for V {
    fn validate(&self, ns: &str) -> AvroResult<()> {
        if ns == probe(self.0) || ns.is_empty() || ns.split('.').all(std_name_ok) {
            Ok(())
        } else {
            Err(apache_avro::error::Details::InvalidNamespace(ns.to_string(), "probe").into())
        }
    }
}
impl EnumSymbolNameValidator for V {
    fn validate(&self, s: &str) -> AvroResult<()> {
        if s == probe(self.0) || std_name_ok(s) {
            Ok(())
        } else {
            Err(apache_avro::error::Details::EnumSymbolName(s.to_string()).into())
        }
    }
}
impl RecordFieldNameValidator for V {
    fn validate(&self, s: &str) -> AvroResult<()> {
        if s == probe(self.0) || std_name_ok(s) {
            Ok(())
        } else {
            Err(apache_avro::error::Details::FieldName(s.to_string()).into())
        }
    }
}

#[derive(Debug)]
struct Cmp(usize);
impl SchemataEq for Cmp {
    fn compare(&self, a: &Schema, b: &Schema) -> bool {
        match (a, b) {
            (Schema::Fixed(f), Schema::Null) => f.size == 1000 + self.0,
            _ => format!("{a:?}") == format!("{b:?}"),
        }
    }
}

fn probe_schema(which: &str, id: usize) -> String {
    let p = probe(id);
    match which {
        "name" => format!(r#"{{"type":"fixed","name":"{p}","size":1}}"#),
        "namespace" => format!(r#"{{"type":"fixed","name":"F","namespace":"{p}","size":1}}"#),
        "symbol" => format!(r#"{{"type":"enum","name":"E","symbols":["{p}"]}}"#),
        _ => format!(r#"{{"type":"record","name":"R","fields":[{{"name":"{p}","type":"int"}}]}}"#),
    }
}

fn classify<T>(r: Result<AvroResult<T>, crate::panics::PanicInfo>) -> String {
    match r {
        Err(p) => format!("panic:{}", p.site),
        Ok(Ok(_)) => "ok".into(),
        Ok(Err(e)) => {
            let k = err_kind(&e);
            let m = e.to_string();
            if m.contains("Unable to allocate") || m.contains("Allocation limit") || k.starts_with("Allocation-limit") {
                "limit".into()
            } else {
                format!("other:{k}")
            }
        }
    }
}

fn run_op(t: usize, op: &J) -> (J, J) {
    let o = op["o"].as_str().unwrap_or("");
    match o {
        "set_limit" => {
            let v = op["v"].as_u64().unwrap_or(0) as usize;
            (json!(v), json!(apache_avro::util::max_allocation_bytes(v)))
        }
        "use_limit" => {
            // decoding a 3-byte bytes datum consults the limit (and initialises it to the default)
            let r = GenericDatumReader::builder(&Schema::Bytes).build().and_then(|rd| rd.read_value(&mut &[6u8, 1, 2, 3][..]));
            (J::Null, json!(if r.is_ok() { "ok" } else { "err" }))
        }
        "set_hr" => {
            let v = op["v"].as_bool().unwrap_or(false);
            (json!(v), json!(apache_avro::util::set_serde_human_readable(v)))
        }
        "use_hr" => {
            let r = GenericDatumReader::builder(&Schema::Int).build().is_ok();
            (J::Null, json!(r))
        }
        "set_validator" => {
            let which = op["which"].as_str().unwrap_or("name");
            let ok = match which {
                "name" => set_schema_name_validator(Box::new(V(t))).is_ok(),
                "namespace" => set_schema_namespace_validator(Box::new(V(t))).is_ok(),
                "symbol" => set_enum_symbol_name_validator(Box::new(V(t))).is_ok(),
                _ => set_record_field_name_validator(Box::new(V(t))).is_ok(),
            };
            (json!({"which": which, "id": t}), json!(ok))
        }
        "use_validators" => {
            let r = Schema::parse_str(r#"{"type":"record","name":"a.R","fields":[{"name":"f","type":{"type":"enum","name":"E","symbols":["S"]}}]}"#).is_ok();
            (J::Null, json!(r))
        }
        "set_comparator" => (json!(t), json!(set_schemata_equality_comparator(Box::new(Cmp(t))).is_ok())),
        "use_comparator" => (J::Null, json!(Schema::Int == Schema::Int)),
        _ => (J::Null, J::Null),
    }
}

fn size_probe(schema: &Schema, data: &[u8], deser: bool) -> String {
    let rd = match GenericDatumReader::builder(schema).build() {
        Ok(r) => r,
        Err(_) => return "setup".into(),
    };
    if deser {
        crate::anyvalue::set_discard(true);
        crate::anyvalue::reset(10_000);
        classify(guard(|| rd.read_deser::<AnyValue>(&mut &data[..])))
    } else {
        classify(guard(|| rd.read_value(&mut &data[..])))
    }
}

pub fn run(plan_path: &str, out_dir: Option<&str>) -> i32 {
    let plan: J = match std::fs::read_to_string(plan_path).ok().and_then(|s| serde_json::from_str(&s).ok()) {
        Some(p) => p,
        None => {
            eprintln!("bad plan");
            return 3;
        }
    };
    let threads = plan["threads"].as_array().cloned().unwrap_or_default();
    let n = threads.len();
    let arrived = Arc::new(AtomicUsize::new(0));
    let t0 = Instant::now();
    let mut handles = Vec::new();
    for (t, ops) in threads.into_iter().enumerate() {
        let arrived = arrived.clone();
        let jitter = plan["jitter"].as_array().and_then(|a| a.get(t)).and_then(|x| x.as_u64()).unwrap_or(0);
        handles.push(std::thread::spawn(move || {
            let ops = ops.as_array().cloned().unwrap_or_default();
            arrived.fetch_add(1, Ordering::SeqCst);
            while arrived.load(Ordering::SeqCst) < n {
                std::hint::spin_loop();
            }
            let start = Instant::now();
            while (start.elapsed().as_nanos() as u64) < jitter {
                std::hint::spin_loop();
            }
            let mut evs = Vec::new();
            for op in &ops {
                let tc = t0.elapsed().as_nanos() as u64;
                let (proposed, ret) = run_op(t, op);
                let tr = t0.elapsed().as_nanos() as u64;
                evs.push(json!({"t": t, "o": op["o"], "which": op.get("which"), "proposed": proposed, "ret": ret, "t_call": tc, "t_ret": tr}));
            }
            evs
        }));
    }
    let mut events = Vec::new();
    for h in handles {
        match h.join() {
            Ok(e) => events.extend(e),
            Err(_) => events.push(json!({"thread_panicked": true})),
        }
    }
    // ---------------------------------------------------------------- after the race (single-threaded)
    #[cfg(feature = "hooks")]
    let peek = {
        let (lim, hr) = apache_avro::util::verif_peek_settings();
        json!({"limit": lim, "hr": hr, "validators_set": apache_avro::validator::verif_peek_validators_set(), "comparator_set": apache_avro::schema_equality::verif_peek_comparator_set()})
    };
    #[cfg(not(feature = "hooks"))]
    let peek = J::Null;
    // force the defaults of whatever nobody set (a *use*, as the library itself would do), so that the
    // observations below cannot themselves become the first setter
    let _ = GenericDatumReader::builder(&Schema::Bytes).build().and_then(|rd| rd.read_value(&mut &[6u8, 1, 2, 3][..]));
    let mut obs = Vec::new();
    for round in 0..3 {
        let lim = apache_avro::util::max_allocation_bytes(777 + round);
        let hr_t = apache_avro::util::set_serde_human_readable(true);
        let hr_f = apache_avro::util::set_serde_human_readable(false);
        let mut val = serde_json::Map::new();
        for which in ["name", "namespace", "symbol", "field"] {
            let accepted: Vec<usize> = (0..n.max(1)).filter(|i| Schema::parse_str(&probe_schema(which, *i)).is_ok()).collect();
            val.insert(which.into(), json!(accepted));
        }
        let cmp: Vec<usize> = (0..n.max(1))
            .filter(|i| {
                let f = Schema::parse_str(&format!(r#"{{"type":"fixed","name":"Q","size":{}}}"#, 1000 + i)).unwrap();
                f == Schema::Null
            })
            .collect();
        obs.push(json!({"limit": lim, "hr_when_asked_true": hr_t, "hr_when_asked_false": hr_f, "validators_accepting_probe": val, "comparators_matching_probe": cmp}));
    }
    let w = apache_avro::util::max_allocation_bytes(0);
    let heavy = plan["heavy"].as_bool().unwrap_or(true);
    // ---------------------------------------------------------------- uniformity sweep of the limit in force
    let mut sweep = Vec::new();
    let do_sweep = plan["sweep"].as_bool().unwrap_or(true);
    let sv = std::mem::size_of::<Value>();
    let skv = std::mem::size_of::<(String, Value)>();
    let mut lens: Vec<u128> = vec![];
    for d in [w.checked_sub(1), Some(w), w.checked_add(1)].into_iter().flatten() {
        if do_sweep {
            lens.push(d as u128);
        }
    }
    let arr = Schema::array(Schema::Long).build();
    let map = Schema::map(Schema::Long).build();
    let bigdec = Schema::BigDecimal;
    for d in &lens {
        if *d > i64::MAX as u128 {
            continue;
        }
        let dv = zigzag_varint(*d as i64);
        let declared = *d as u64;
        sweep.push(json!({"guard": "bytes", "declared": declared, "r": size_probe(&Schema::Bytes, &dv, false)}));
        sweep.push(json!({"guard": "string", "declared": declared, "r": size_probe(&Schema::String, &dv, false)}));
        sweep.push(json!({"guard": "serde-bytes", "declared": declared, "r": size_probe(&Schema::Bytes, &dv, true)}));
        sweep.push(json!({"guard": "serde-string", "declared": declared, "r": size_probe(&Schema::String, &dv, true)}));
        // big-decimal: outer bytes hold an inner length (the outer length itself must be within the limit)
        let inner = dv.clone();
        if inner.len() <= w {
        let mut outer = zigzag_varint(inner.len() as i64);
        outer.extend_from_slice(&inner);
        sweep.push(json!({"guard": "big-decimal-inner", "declared": declared, "r": size_probe(&bigdec, &outer, false)}));
        }
        // container block size (the header's own strings must fit the limit)
        if w >= 32 && (heavy || w <= (64 << 20)) {
        let mut file = b"Obj\x01".to_vec();
        file.extend_from_slice(&[2, 22]);
        file.extend_from_slice(b"avro.schema");
        file.extend_from_slice(&[12]);
        file.extend_from_slice(b"\"long\"");
        file.push(0);
        file.extend_from_slice(&[9u8; 16]);
        file.push(2);
        file.extend_from_slice(&dv);
        let r = guard(|| -> AvroResult<()> {
            let rd = apache_avro::Reader::new(&file[..])?;
            for it in rd {
                it?;
            }
            Ok(())
        });
        sweep.push(json!({"guard": "container-block-size", "declared": declared, "r": classify(r)}));
        }
        // snappy declared uncompressed length
        let mut sn = Vec::new();
        let mut x = *d as u64;
        loop {
            if x > 0x7f {
                sn.push(0x80 | (x & 0x7f) as u8);
                x >>= 7;
            } else {
                sn.push(x as u8);
                break;
            }
        }
        sn.extend_from_slice(&[0x00, b'a', 0, 0, 0, 0]);
        if *d <= u32::MAX as u128 {
            let r = guard(|| {
                let mut v = sn.clone();
                Codec::Snappy.decompress(&mut v)
            });
            sweep.push(json!({"guard": "snappy-declared-length", "declared": declared, "r": classify(r)}));
        }
    }
    // element-count guards: count * size_of
    for (gname, schema, sz) in [("array-count", &arr, sv), ("map-count", &map, skv)] {
        if !do_sweep {
            break;
        }
        let c0 = w / sz;
        for c in [c0.checked_sub(1), Some(c0), c0.checked_add(1)].into_iter().flatten() {
            if c as u128 > i64::MAX as u128 || c == 0 {
                continue;
            }
            let dv = zigzag_varint(c as i64);
            sweep.push(json!({"guard": gname, "declared": (c as u128 * sz as u128).min(u64::MAX as u128) as u64, "count": c as u64, "elem": sz, "r": size_probe(schema, &dv, false)}));
        }
        // near-overflow counts must be errors, not panics
        for c in [usize::MAX / sz, usize::MAX / sz + 1, (i64::MAX as usize)] {
            if c as u128 > i64::MAX as u128 {
                continue;
            }
            let dv = zigzag_varint(c as i64);
            sweep.push(json!({"guard": format!("{gname}-overflow"), "declared": u64::MAX, "count": c as u64, "r": size_probe(schema, &dv, false)}));
        }
    }
    // decompressed output length (only where the payload is affordable)
    if w <= (4 << 20) && do_sweep {
        for d in &lens {
            let d = *d as usize;
            let payload = vec![7u8; d];
            let mut codecs: Vec<(&str, Codec)> = vec![("deflate", Codec::Deflate(Default::default())), ("bzip2", Codec::Bzip2(Default::default()))];
            #[cfg(feature = "ffi-codecs")]
            {
                codecs.push(("xz", Codec::Xz(apache_avro::XzSettings::new(0))));
                codecs.push(("zstandard", Codec::Zstandard(Default::default())));
            }
            for (name, c) in codecs {
                let mut s = payload.clone();
                if c.compress(&mut s).is_err() {
                    continue;
                }
                let r = guard(|| {
                    let mut v = s.clone();
                    c.decompress(&mut v)
                });
                sweep.push(json!({"guard": format!("{name}-output-length"), "declared": d as u64, "r": classify(r)}));
            }
        }
    }
    if w == usize::MAX && do_sweep {
        // above the default: must be accepted when the limit is usize::MAX
        let dv = zigzag_varint(600 << 20);
        sweep.push(json!({"guard": "bytes", "declared": (600u64 << 20), "r": size_probe(&Schema::Bytes, &dv, false)}));
    }
    let result = json!({"events": events, "peek": peek, "observations": obs, "limit_in_force": w as u64, "limit_is_usize_max": w == usize::MAX, "sweep": sweep,
        "size_of_value": sv, "size_of_string_value": skv});
    match out_dir {
        // one file per execution: under -Zmiri-many-seeds several executions share this process's stdout
        Some(d) => {
            let nonce = std::time::SystemTime::now().duration_since(std::time::UNIX_EPOCH).map(|x| x.as_nanos()).unwrap_or(0);
            let path = format!("{d}/race-{nonce}-{:x}.json", &result as *const _ as usize);
            if std::fs::write(&path, result.to_string()).is_err() {
                return 5;
            }
        }
        None => println!("{result}"),
    }
    0
}
