//! C05/C06 engine: hostile bytes through the datum decoders, with the allocation, step, CPU and
//! panic monitors, and the conformance oracle on every successful decode.

use crate::anyvalue::{self, AnyValue};
use crate::exec::{Ctx, OpErr, err_kind, thread_cpu_ns};
use crate::panics::guard;
use crate::tagged::{hex, to_tagged, unhex};
use apache_avro::reader::datum::GenericDatumReader;
use apache_avro::schema::{Name, ResolvedSchema};
use apache_avro::types::Value;
use apache_avro::writer::datum::GenericDatumWriter;
use apache_avro::Schema;
use serde_json::{Map, Value as J, json};
use std::collections::{BTreeMap, HashMap};

pub const ALPHABET: [u8; 12] = [0x00, 0x01, 0x02, 0x03, 0x04, 0x7f, 0x80, 0x81, 0xfe, 0xff, 0x10, 0xc3];

pub fn zigzag_varint(n: i64) -> Vec<u8> {
    let mut z = ((n << 1) ^ (n >> 63)) as u64;
    let mut out = Vec::new();
    loop {
        if z <= 0x7f {
            out.push(z as u8);
            return out;
        }
        out.push(0x80 | (z & 0x7f) as u8);
        z >>= 7;
    }
}

struct Rng(u64);
impl Rng {
    fn next(&mut self) -> u64 {
        let mut x = self.0;
        x ^= x << 13;
        x ^= x >> 7;
        x ^= x << 17;
        self.0 = x;
        x
    }
}

pub struct Agg {
    viol: BTreeMap<String, (usize, J)>,
}
impl Agg {
    pub fn new() -> Self {
        Agg { viol: BTreeMap::new() }
    }
    pub fn add(&mut self, sig: String, d: J) {
        self.viol.entry(sig).or_insert((0, d)).0 += 1;
    }
    pub fn json(self) -> Vec<J> {
        self.viol.into_iter().map(|(k, (n, d))| json!({"sig": k, "count": n, "first": d})).collect()
    }
}

fn kind_name(s: &Schema) -> String {
    format!("{:?}", apache_avro::schema::SchemaKind::from(s))
}

/// innermost (value kind, schema kind) at which `v` fails to validate against `s`
fn offending(v: &Value, s: &Schema, names: &HashMap<Name, &Schema>, ns: Option<&str>, depth: usize) -> String {
    let here = |v: &Value, s: &Schema| format!("value={:?} schema={}", apache_avro::types::ValueKind::from(v), kind_name(s));
    if depth > 64 {
        return here(v, s);
    }
    let s = match s {
        Schema::Ref { name } => match names.get(&name.fully_qualified_name(ns).into_owned()) {
            Some(x) => *x,
            None => return here(v, s),
        },
        x => x,
    };
    match (v, s) {
        (Value::Record(fs), Schema::Record(r)) => {
            let rns = r.name.namespace().or(ns);
            for ((_, fv), f) in fs.iter().zip(r.fields.iter()) {
                if fv.validate_with_names(&f.schema, names) == false {
                    return offending(fv, &f.schema, names, rns, depth + 1);
                }
            }
            here(v, s)
        }
        (Value::Array(items), Schema::Array(a)) => {
            for it in items {
                if it.validate_with_names(&a.items, names) == false {
                    return offending(it, &a.items, names, ns, depth + 1);
                }
            }
            here(v, s)
        }
        (Value::Map(m), Schema::Map(ms)) => {
            for it in m.values() {
                if it.validate_with_names(&ms.types, names) == false {
                    return offending(it, &ms.types, names, ns, depth + 1);
                }
            }
            here(v, s)
        }
        (Value::Union(i, inner), Schema::Union(u)) => match u.variants().get(*i as usize) {
            Some(b) => {
                if !inner.validate_with_names(b, names) {
                    offending(inner, b, names, ns, depth + 1)
                } else {
                    here(v, s)
                }
            }
            None => "union-index-out-of-range".to_string(),
        },
        _ => here(v, s),
    }
}

pub struct Limits {
    pub l: usize,
    /// constant working memory a block decompressor may need whatever the data says
    /// (bzip2: <= ~3.7 MiB for level 9; xz/zstd default dictionaries/windows: 8 MiB)
    pub codec_workset: usize,
}

impl Limits {
    pub fn alloc_bound(&self, input_len: usize) -> usize {
        self.l.saturating_mul(4).saturating_add(64 * input_len).saturating_add(64 << 10).saturating_add(self.codec_workset)
    }
    pub fn step_bound(&self, input_len: usize) -> u64 {
        (self.l / 8) as u64 + 64 * input_len as u64 + 4096
    }
}

/// CPU time one call may take before it is reported: a fixed 30 s plus what the configured limit legitimately allows
/// (up to limit/56 collection items at a generous 20 us each) -- bounded progress in terms of the limit, not a stopwatch
fn cpu_budget(o: &Map<String, J>, lim: &Limits) -> u64 {
    match o.get("cpu_budget_ms").and_then(|x| x.as_u64()) {
        Some(ms) => ms * 1_000_000,
        None => 30_000_000_000u64 + (lim.l as u64 / 56).saturating_mul(20_000),
    }
}

pub fn fuzz_decode(ctx: &Ctx, o: &Map<String, J>) -> Result<J, OpErr> {
    let schema = ctx.schema(o.get("sid").and_then(|x| x.as_str()).ok_or("sid")?)?;
    let lim = Limits {
        l: o.get("limit").and_then(|x| x.as_u64()).ok_or("limit")? as usize,
        codec_workset: 0,
    };
    let heavy = o.get("heavy").and_then(|x| x.as_bool()).unwrap_or(false);
    let exhaustive_len = o.get("exhaustive_len").and_then(|x| x.as_u64()).unwrap_or(0) as usize;
    let n_random = o.get("random").and_then(|x| x.as_u64()).unwrap_or(0) as usize;
    let do_deser = o.get("deser").and_then(|x| x.as_bool()).unwrap_or(true);
    let mut rng = Rng(o.get("seed").and_then(|x| x.as_u64()).unwrap_or(1) | 1);
    let mut valid: Vec<Vec<u8>> = Vec::new();
    for h in o.get("valid").and_then(|x| x.as_array()).cloned().unwrap_or_default() {
        valid.push(unhex(h.as_str().unwrap_or(""))?);
    }
    let rs = ResolvedSchema::new(schema)?;
    let names: HashMap<Name, &Schema> = rs.get_names().clone();
    let reader = GenericDatumReader::builder(schema).build()?;
    let writer = GenericDatumWriter::builder(schema).validate(false).build()?;
    let cpu_budget_ns: u64 = cpu_budget(o, &lim);

    let mut agg = Agg::new();
    anyvalue::set_discard(true);
    let mut step_violation_seen = false;
    let mut calls = 0usize;
    let (mut n_ok, mut n_err) = (0usize, 0usize);
    let mut max_alloc = 0usize;
    let mut max_steps = 0u64;
    let mut max_cpu_ns = 0u64;
    let mut prefixes = 0usize;
    let mut ok_checked = 0usize;

    let mut run_one = |b: &[u8], strict_prefix: bool, origin: &str, agg: &mut Agg| {
        crate::alloc::set_current_input(b);
        // ------------------------------------------------ generic decoder
        calls += 1;
        crate::alloc::reset();
        let t0 = std::time::Instant::now();
        let c0 = if heavy { thread_cpu_ns() } else { 0 };
        let mut pos_v = 0usize;
        let rv = guard(|| {
            let mut cur = &b[..];
            let r = reader.read_value(&mut cur);
            pos_v = b.len() - cur.len();
            r
        });
        let st = crate::alloc::stats();
        let wall = t0.elapsed();
        if wall.as_millis() > 50 || heavy {
            // confirm with CPU time (wall clock is not a verdict)
            let cpu = if heavy {
                thread_cpu_ns() - c0
            } else {
                let c1 = thread_cpu_ns();
                let _ = guard(|| reader.read_value(&mut &b[..]).map(|_| ()));
                thread_cpu_ns() - c1
            };
            if cpu > max_cpu_ns {
                max_cpu_ns = cpu;
            }
            // a panicking call spends its time in the monitor's own backtrace symbolisation
            if cpu > cpu_budget_ns && rv.is_ok() {
                agg.add("cpu-budget entry=read_value".into(), json!({"bytes": hex(b), "cpu_ms": cpu / 1_000_000}));
            }
        }
        if st.max_req > max_alloc {
            max_alloc = st.max_req;
        }
        if st.max_req > lim.alloc_bound(b.len()) {
            crate::alloc::reset();
            crate::alloc::set_trap(lim.alloc_bound(b.len()));
            let _ = guard(|| reader.read_value(&mut &b[..]).map(|_| ()));
            let site = crate::alloc::take_trap_site().unwrap_or_else(|| "?".into());
            agg.add(format!("over-allocation entry=read_value site={site}"), json!({"bytes": hex(b), "request": st.max_req, "bound": lim.alloc_bound(b.len()), "limit": lim.l}));
        }
        let mut value_ok: Option<(Value, usize)> = None;
        match rv {
            Err(p) => agg.add(format!("panic entry=read_value site={}", p.site), json!({"bytes": hex(b), "msg": p.msg, "origin": origin})),
            Ok(Err(_)) => n_err += 1,
            Ok(Ok(v)) => {
                n_ok += 1;
                value_ok = Some((v, pos_v));
            }
        }
        // ------------------------------------------------ conformance of a successful decode (C06)
        if let Some((v, pos)) = &value_ok {
            ok_checked += 1;
            let valid_ = guard(|| v.validate(schema));
            match valid_ {
                Err(ref p) => agg.add(format!("panic entry=validate site={}", p.site), json!({"bytes": hex(b)})),
                Ok(false) => {
                    let at = offending(v, schema, &names, None, 0);
                    agg.add(format!("ok-value-does-not-validate {at} at={}", if *pos == b.len() { "eof" } else { "mid" }), json!({"bytes": hex(b), "value": to_tagged(v)}));
                }
                Ok(true) => {
                    let mut out = Vec::new();
                    match guard(|| writer.write_value_ref(&mut out, v)) {
                        Err(p) => agg.add(format!("panic entry=reencode site={}", p.site), json!({"bytes": hex(b)})),
                        Ok(Err(e)) => agg.add(format!("reencode-fails kind={}", err_kind(&e)), json!({"bytes": hex(b), "value": to_tagged(v)})),
                        Ok(Ok(_)) => match guard(|| reader.read_value(&mut &out[..])) {
                            Ok(Ok(v2)) => {
                                if to_tagged(&v2) != to_tagged(v) {
                                    agg.add("reencode-roundtrip-differs".into(), json!({"bytes": hex(b), "value": to_tagged(v), "again": to_tagged(&v2)}));
                                }
                            }
                            Ok(Err(e)) => agg.add(format!("reencoded-bytes-rejected kind={}", err_kind(&e)), json!({"bytes": hex(b), "value": to_tagged(v)})),
                            Err(p) => agg.add(format!("panic entry=redecode site={}", p.site), json!({"bytes": hex(b)})),
                        },
                    }
                }
            }
            if strict_prefix {
                let at = if valid_.as_ref().map(|x| *x).unwrap_or(true) { "value-validates".to_string() } else { offending(v, schema, &names, None, 0) };
                agg.add(format!("strict-prefix-accepted entry=read_value {at}"), json!({"bytes": hex(b), "value": to_tagged(v)}));
            }
        }
        if strict_prefix {
            prefixes += 1;
        }
        // ------------------------------------------------ schema-aware deserializer
        if do_deser {
            calls += 1;
            crate::alloc::reset();
            let sb = lim.step_bound(b.len());
            // once the step-budget class has a witness for this schema, later inputs are capped
            // low (and not judged on steps) so that one defect does not cost seconds per input
            let cap = if step_violation_seen { sb.min(200_000) } else { sb };
            anyvalue::reset(cap + 1);
            let t0 = std::time::Instant::now();
            let mut pos_d = 0usize;
            let rd = guard(|| {
                let mut cur = &b[..];
                let r = reader.read_deser::<AnyValue>(&mut cur);
                pos_d = b.len() - cur.len();
                r
            });
            let st = crate::alloc::stats();
            let steps = anyvalue::steps();
            if steps > max_steps {
                max_steps = steps;
            }
            if t0.elapsed().as_millis() > 50 {
                let c1 = thread_cpu_ns();
                anyvalue::reset(cap + 1);
                let _ = guard(|| reader.read_deser::<AnyValue>(&mut &b[..]).map(|_| ()));
                let cpu = thread_cpu_ns() - c1;
                if cpu > max_cpu_ns {
                    max_cpu_ns = cpu;
                }
                if cpu > cpu_budget_ns && rd.is_ok() {
                    agg.add("cpu-budget entry=read_deser".into(), json!({"bytes": hex(b), "cpu_ms": cpu / 1_000_000}));
                }
            }
            if st.max_req > max_alloc {
                max_alloc = st.max_req;
            }
            if steps > sb {
                step_violation_seen = true;
                agg.add("step-budget-exceeded entry=read_deser".into(), json!({"bytes": hex(b), "steps": steps, "bound": sb, "limit": lim.l}));
            }
            if st.max_req > lim.alloc_bound(b.len()) {
                crate::alloc::reset();
                anyvalue::reset(cap + 1);
                crate::alloc::set_trap(lim.alloc_bound(b.len()));
                let _ = guard(|| reader.read_deser::<AnyValue>(&mut &b[..]).map(|_| ()));
                let site = crate::alloc::take_trap_site().unwrap_or_else(|| "?".into());
                agg.add(format!("over-allocation entry=read_deser site={site}"), json!({"bytes": hex(b), "request": st.max_req, "bound": lim.alloc_bound(b.len()), "limit": lim.l}));
            }
            match rd {
                Err(p) => agg.add(format!("panic entry=read_deser site={}", p.site), json!({"bytes": hex(b), "msg": p.msg})),
                Ok(Err(_)) => {}
                Ok(Ok(_)) => {
                    if strict_prefix {
                        agg.add("strict-prefix-accepted entry=read_deser".into(), json!({"bytes": hex(b)}));
                    }
                    if let Some((_, pos)) = &value_ok {
                        if *pos != pos_d {
                            agg.add("decoders-consume-different-lengths".into(), json!({"bytes": hex(b), "read_value": pos, "read_deser": pos_d}));
                        }
                    }
                }
            }
        }
    };

    // (i) exhaustive short strings over the alphabet
    let mut n_exh = 0usize;
    if exhaustive_len > 0 {
        let mut buf: Vec<u8> = Vec::new();
        fn rec(buf: &mut Vec<u8>, left: usize, f: &mut dyn FnMut(&[u8])) {
            f(buf);
            if left == 0 {
                return;
            }
            for a in ALPHABET {
                buf.push(a);
                rec(buf, left - 1, f);
                buf.pop();
            }
        }
        let mut f = |b: &[u8]| {
            n_exh += 1;
            run_one(b, false, "exhaustive", &mut agg);
        };
        rec(&mut buf, exhaustive_len, &mut f);
    }
    // (ii) structured mutations of valid encodings
    let l = lim.l as i64;
    let hostile_all: Vec<i64> = vec![-1, i64::MIN, 1 << 31, 1 << 62, l / 8, l - 1, l, l + 1, l.saturating_mul(16), l / 56, l / 56 + 1, -(l / 56), -(1 << 40)];
    let hostile_cheap: Vec<i64> = vec![-1, i64::MIN, 1 << 31, 1 << 62, l + 1, l.saturating_mul(16), l / 56 + 1, -(1 << 40)];
    let mut n_mut = 0usize;
    for (vi, v) in valid.iter().enumerate() {
        // the valid encoding itself must decode (sanity) ...
        run_one(v, false, "valid", &mut agg);
        // ... every strict prefix must not
        if v.len() <= 4096 {
            for c in 0..v.len() {
                run_one(&v[..c], true, "prefix", &mut agg);
            }
        } else {
            // large datum: cuts near the start, near the end and around every power of two (buffer / chunk sizes)
            let mut cuts: Vec<usize> = (0..16).chain(v.len() - 16..v.len()).collect();
            let mut p = 256usize;
            while p < v.len() + 8 {
                for d in [p.wrapping_sub(9), p - 2, p - 1, p, p + 1, p + 2, p + 3, p + 4, p + 5, p + 8] {
                    if d < v.len() {
                        cuts.push(d);
                    }
                }
                p *= 2;
            }
            for k in 1..8 {
                cuts.push(v.len() * k / 8);
            }
            cuts.sort_unstable();
            cuts.dedup();
            for c in cuts {
                run_one(&v[..c], true, "prefix", &mut agg);
            }
        }
        let max_off = if heavy { v.len().min(24) } else { v.len().min(200) };
        for i in 0..max_off {
            for x in [0x01u8, 0x80, 0xff] {
                let mut m = v.clone();
                m[i] ^= x;
                run_one(&m, false, "bitflip", &mut agg);
                n_mut += 1;
            }
            let hs = if heavy && (i > 0 || vi > 0) { &hostile_cheap } else { &hostile_all };
            for h in hs {
                let mut m = v[..i].to_vec();
                m.extend_from_slice(&zigzag_varint(*h));
                m.extend_from_slice(&v[i + 1..]);
                run_one(&m, false, "varint-splice", &mut agg);
                n_mut += 1;
            }
        }
        // splices of two valid encodings
        if vi + 1 < valid.len() {
            let w = &valid[vi + 1];
            for cut in [1usize, 2, v.len() / 2] {
                if cut < v.len() && cut < w.len() {
                    let mut m = v[..cut].to_vec();
                    m.extend_from_slice(&w[cut..]);
                    run_one(&m, false, "splice", &mut agg);
                    n_mut += 1;
                }
            }
        }
    }
    // (iii) random bytes
    for _ in 0..n_random {
        let n = (rng.next() % 24) as usize;
        let b: Vec<u8> = (0..n).map(|_| if rng.next() % 3 == 0 { ALPHABET[(rng.next() % 12) as usize] } else { rng.next() as u8 }).collect();
        run_one(&b, false, "random", &mut agg);
    }
    Ok(json!({"calls": calls, "ok": n_ok, "err": n_err, "exhaustive_strings": n_exh, "mutations": n_mut, "strict_prefixes": prefixes,
        "ok_values_checked": ok_checked, "max_single_alloc": max_alloc, "max_steps": max_steps, "max_cpu_ms": max_cpu_ns / 1_000_000,
        "violations": agg.json()}))
}

/// shared monitor wrapper for one hostile call on an arbitrary entry point
fn monitored<T>(
    entry: &str,
    input: &[u8],
    lim: &Limits,
    cpu_budget_ns: u64,
    agg: &mut Agg,
    stats: &mut (usize, u64),
    mut f: impl FnMut() -> Result<T, apache_avro::Error>,
) -> Option<Result<T, apache_avro::Error>> {
    crate::alloc::set_current_input(input);
    crate::alloc::reset();
    let c0 = thread_cpu_ns();
    let r = guard(&mut f);
    let cpu = thread_cpu_ns() - c0;
    let st = crate::alloc::stats();
    if st.max_req > stats.0 {
        stats.0 = st.max_req;
    }
    if cpu > stats.1 {
        stats.1 = cpu;
    }
    if cpu > cpu_budget_ns && r.is_ok() {
        agg.add(format!("cpu-budget entry={entry}"), json!({"bytes": hex(&input[..input.len().min(400)]), "cpu_ms": cpu / 1_000_000}));
    }
    if st.max_req > lim.alloc_bound(input.len()) {
        crate::alloc::reset();
        crate::alloc::set_trap(lim.alloc_bound(input.len()));
        let _ = guard(&mut f);
        let site = crate::alloc::take_trap_site().unwrap_or_else(|| "?".into());
        agg.add(format!("over-allocation entry={entry} site={site}"), json!({"bytes": hex(&input[..input.len().min(400)]), "request": st.max_req, "bound": lim.alloc_bound(input.len()), "limit": lim.l}));
    }
    match r {
        Err(p) => {
            agg.add(format!("panic entry={entry} site={}", p.site), json!({"bytes": hex(&input[..input.len().min(400)]), "msg": p.msg}));
            None
        }
        Ok(x) => Some(x),
    }
}

fn read_container(data: &[u8], cap: usize, deser: bool) -> Result<usize, apache_avro::Error> {
    let rd = apache_avro::Reader::new(data)?;
    let mut n = 0usize;
    if deser {
        for item in rd.into_deser_iter::<AnyValue>() {
            if item.is_err() {
                break;
            }
            n += 1;
            if n >= cap {
                break;
            }
        }
    } else {
        for item in rd {
            if item.is_err() {
                break;
            }
            n += 1;
            if n >= cap {
                break;
            }
        }
    }
    Ok(n)
}

pub fn fuzz_container(o: &Map<String, J>) -> Result<J, OpErr> {
    anyvalue::set_discard(true);
    let lim = Limits {
        l: o.get("limit").and_then(|x| x.as_u64()).ok_or("limit")? as usize,
        codec_workset: 16 << 20,
    };
    let heavy = o.get("heavy").and_then(|x| x.as_bool()).unwrap_or(false);
    let cpu_budget_ns: u64 = cpu_budget(o, &lim);
    let mutate = o.get("mutate").and_then(|x| x.as_bool()).unwrap_or(true);
    let mut agg = Agg::new();
    let mut stats = (0usize, 0u64);
    let mut calls = 0usize;
    let mut opened = 0usize;
    let l = lim.l as i64;
    let hostile: Vec<i64> = if heavy {
        vec![-1, i64::MIN, 1 << 31, 1 << 62, l + 1, l.saturating_mul(16), l / 56 + 1]
    } else {
        vec![-1, i64::MIN, 1 << 31, 1 << 62, l / 8, l - 1, l, l + 1, l.saturating_mul(16), l / 56, l / 56 + 1]
    };
    for f in o.get("files").and_then(|x| x.as_array()).cloned().unwrap_or_default() {
        let data = unhex(f.as_str().unwrap_or(""))?;
        let mut one = |b: &[u8], agg: &mut Agg| {
            for deser in [false, true] {
                calls += 1;
                anyvalue::reset(lim.step_bound(b.len()) + 1);
                let r = monitored(if deser { "container-deser" } else { "container" }, b, &lim, cpu_budget_ns, agg, &mut stats, || read_container(b, 100_000, deser));
                if let Some(Ok(_)) = r {
                    opened += 1;
                }
                if deser && anyvalue::steps() > lim.step_bound(b.len()) {
                    agg.add("step-budget-exceeded entry=container-deser".into(), json!({"bytes": hex(&b[..b.len().min(400)]), "steps": anyvalue::steps()}));
                }
            }
        };
        one(&data, &mut agg);
        if !mutate {
            continue;
        }
        let span = data.len().min(if heavy { 160 } else { 600 });
        for i in 0..span {
            for x in [0x01u8, 0x80, 0xff] {
                let mut m = data.clone();
                m[i] ^= x;
                one(&m, &mut agg);
            }
            for h in &hostile {
                let mut m = data[..i].to_vec();
                m.extend_from_slice(&zigzag_varint(*h));
                m.extend_from_slice(&data[i + 1..]);
                one(&m, &mut agg);
            }
            one(&data[..i], &mut agg);
        }
        // the tail (last block header and marker)
        let tail_from = data.len().saturating_sub(60).max(span);
        for i in tail_from..data.len() {
            let mut m = data.clone();
            m[i] ^= 0xff;
            one(&m, &mut agg);
            one(&data[..i], &mut agg);
        }
    }
    Ok(json!({"calls": calls, "read_without_error": opened, "max_single_alloc": stats.0, "max_cpu_ms": stats.1 / 1_000_000, "violations": agg.json()}))
}

pub fn fuzz_codec(o: &Map<String, J>) -> Result<J, OpErr> {
    let lim = Limits {
        l: o.get("limit").and_then(|x| x.as_u64()).ok_or("limit")? as usize,
        codec_workset: 16 << 20,
    };
    let cpu_budget_ns: u64 = cpu_budget(o, &lim);
    let codec = crate::exec::codec_from(o.get("codec"))?;
    let cname = o.get("codec").map(|c| c.get("name").and_then(|x| x.as_str()).unwrap_or_else(|| c.as_str().unwrap_or("null")).to_string()).unwrap_or_default();
    let mut rng = Rng(o.get("seed").and_then(|x| x.as_u64()).unwrap_or(1) | 1);
    let mut agg = Agg::new();
    let mut stats = (0usize, 0u64);
    let mut calls = 0usize;
    let mut oks = 0usize;
    let mut max_out = 0usize;
    let mut one = |b: &[u8], agg: &mut Agg| {
        calls += 1;
        let entry = format!("decompress-{cname}");
        let r = monitored(&entry, b, &lim, cpu_budget_ns, agg, &mut stats, || {
            let mut v = b.to_vec();
            codec.decompress(&mut v)?;
            Ok(v.len())
        });
        if let Some(Ok(n)) = r {
            oks += 1;
            if n > max_out {
                max_out = n;
            }
            if n > lim.l && cname != "null" {
                agg.add(format!("decompressed-above-limit codec={cname}"), json!({"bytes": hex(&b[..b.len().min(200)]), "out_len": n, "limit": lim.l}));
            }
        }
    };
    for s in o.get("streams").and_then(|x| x.as_array()).cloned().unwrap_or_default() {
        let data = unhex(s.as_str().unwrap_or(""))?;
        one(&data, &mut agg);
        let span = data.len().min(300);
        for i in 0..span {
            for x in [0x01u8, 0x80, 0xff] {
                let mut m = data.clone();
                m[i] ^= x;
                one(&m, &mut agg);
            }
            one(&data[..i], &mut agg);
        }
        for i in data.len().saturating_sub(12)..data.len() {
            let mut m = data.clone();
            m[i] ^= 0xff;
            one(&m, &mut agg);
        }
    }
    for _ in 0..o.get("random").and_then(|x| x.as_u64()).unwrap_or(0) {
        let n = (rng.next() % 40) as usize;
        let b: Vec<u8> = (0..n).map(|_| rng.next() as u8).collect();
        one(&b, &mut agg);
    }
    Ok(json!({"calls": calls, "ok": oks, "max_output": max_out, "max_single_alloc": stats.0, "max_cpu_ms": stats.1 / 1_000_000, "violations": agg.json()}))
}

pub fn fuzz_single_object(ctx: &Ctx, o: &Map<String, J>) -> Result<J, OpErr> {
    anyvalue::set_discard(true);
    let schema = ctx.schema(o.get("sid").and_then(|x| x.as_str()).ok_or("sid")?)?;
    let lim = Limits {
        l: o.get("limit").and_then(|x| x.as_u64()).ok_or("limit")? as usize,
        codec_workset: 0,
    };
    let rd = apache_avro::GenericSingleObjectReader::builder().schema(schema.clone()).build()?;
    let mut agg = Agg::new();
    let mut stats = (0usize, 0u64);
    let mut calls = 0usize;
    let l = lim.l as i64;
    let hostile: Vec<i64> = vec![-1, i64::MIN, 1 << 62, l + 1, l.saturating_mul(16), l / 56 + 1];
    for m in o.get("messages").and_then(|x| x.as_array()).cloned().unwrap_or_default() {
        let data = unhex(m.as_str().unwrap_or(""))?;
        let mut one = |b: &[u8], agg: &mut Agg| {
            calls += 2;
            let _ = monitored("single-object-read_value", b, &lim, 5_000_000_000, agg, &mut stats, || rd.read_value(&mut &b[..]).map(|_| ()));
            anyvalue::reset(lim.step_bound(b.len()) + 1);
            let _ = monitored("single-object-read_deser", b, &lim, 5_000_000_000, agg, &mut stats, || rd.read_deser::<AnyValue>(&mut &b[..]).map(|_| ()));
        };
        one(&data, &mut agg);
        for i in 0..data.len().min(120) {
            let mut mm = data.clone();
            mm[i] ^= 0xff;
            one(&mm, &mut agg);
            one(&data[..i], &mut agg);
            if i >= 10 {
                for h in &hostile {
                    let mut mm = data[..i].to_vec();
                    mm.extend_from_slice(&zigzag_varint(*h));
                    mm.extend_from_slice(&data[i + 1..]);
                    one(&mm, &mut agg);
                }
            }
        }
    }
    Ok(json!({"calls": calls, "max_single_alloc": stats.0, "violations": agg.json()}))
}
