//! "Serde plan" interpreter: a JSON description of serde data-model calls, replayed against any
//! `Serializer`. Lets the Python workload generators drive the schema-aware serializer with
//! arbitrary shapes without compiling a Rust type per shape.

use serde::ser::{
    Error as _, Serialize, SerializeMap, SerializeSeq, SerializeStruct, SerializeStructVariant,
    SerializeTuple, SerializeTupleStruct, SerializeTupleVariant, Serializer,
};
use serde_json::Value as J;
use std::collections::HashMap;
use std::sync::Mutex;

static INTERN: Mutex<Option<HashMap<String, &'static str>>> = Mutex::new(None);

pub fn intern(s: &str) -> &'static str {
    let mut g = INTERN.lock().unwrap();
    let m = g.get_or_insert_with(HashMap::new);
    if let Some(v) = m.get(s) {
        return v;
    }
    let l: &'static str = Box::leak(s.to_string().into_boxed_str());
    m.insert(s.to_string(), l);
    l
}

pub struct Plan<'a>(pub &'a J);

fn bits(s: &str) -> u64 {
    u64::from_str_radix(s.trim_start_matches("0x"), 16).unwrap_or(0)
}

impl Serialize for Plan<'_> {
    fn serialize<S: Serializer>(&self, ser: S) -> Result<S::Ok, S::Error> {
        let a = self
            .0
            .as_array()
            .ok_or_else(|| S::Error::custom("plan: not an array"))?;
        let tag = a[0].as_str().unwrap_or("");
        let s = |i: usize| a.get(i).and_then(|x| x.as_str()).unwrap_or("");
        let n = |i: usize| a.get(i).and_then(|x| x.as_i64()).unwrap_or(0);
        let list = |i: usize| a.get(i).and_then(|x| x.as_array()).cloned().unwrap_or_default();
        match tag {
            "unit" => ser.serialize_unit(),
            "bool" => ser.serialize_bool(a[1].as_bool().unwrap_or(false)),
            "i8" => ser.serialize_i8(n(1) as i8),
            "i16" => ser.serialize_i16(n(1) as i16),
            "i32" => ser.serialize_i32(n(1) as i32),
            "i64" => ser.serialize_i64(n(1)),
            "u8" => ser.serialize_u8(n(1) as u8),
            "u16" => ser.serialize_u16(n(1) as u16),
            "u32" => ser.serialize_u32(n(1) as u32),
            "u64" => ser.serialize_u64(s(1).parse().unwrap_or(0)),
            "i128" => ser.serialize_i128(s(1).parse().unwrap_or(0)),
            "u128" => ser.serialize_u128(s(1).parse().unwrap_or(0)),
            "f32" => ser.serialize_f32(f32::from_bits(bits(s(1)) as u32)),
            "f64" => ser.serialize_f64(f64::from_bits(bits(s(1)))),
            "char" => ser.serialize_char(s(1).chars().next().unwrap_or('x')),
            "str" => ser.serialize_str(s(1)),
            "bytes" => ser.serialize_bytes(&crate::tagged::unhex(s(1)).unwrap_or_default()),
            "none" => ser.serialize_none(),
            "some" => ser.serialize_some(&Plan(&a[1])),
            "unit_struct" => ser.serialize_unit_struct(intern(s(1))),
            "unit_variant" => ser.serialize_unit_variant(intern(s(1)), n(2) as u32, intern(s(3))),
            "newtype_struct" => ser.serialize_newtype_struct(intern(s(1)), &Plan(&a[2])),
            "newtype_variant" => {
                ser.serialize_newtype_variant(intern(s(1)), n(2) as u32, intern(s(3)), &Plan(&a[4]))
            }
            "seq" | "seq_nolen" => {
                let items = list(1);
                let mut q =
                    ser.serialize_seq(if tag == "seq" { Some(items.len()) } else { None })?;
                for it in &items {
                    q.serialize_element(&Plan(it))?;
                }
                q.end()
            }
            "tuple" => {
                let items = list(1);
                let mut q = ser.serialize_tuple(items.len())?;
                for it in &items {
                    q.serialize_element(&Plan(it))?;
                }
                q.end()
            }
            "tuple_struct" => {
                let items = list(2);
                let mut q = ser.serialize_tuple_struct(intern(s(1)), items.len())?;
                for it in &items {
                    q.serialize_field(&Plan(it))?;
                }
                q.end()
            }
            "tuple_variant" => {
                let items = list(4);
                let mut q = ser.serialize_tuple_variant(
                    intern(s(1)),
                    n(2) as u32,
                    intern(s(3)),
                    items.len(),
                )?;
                for it in &items {
                    q.serialize_field(&Plan(it))?;
                }
                q.end()
            }
            "map" | "map_nolen" => {
                let items = list(1);
                let mut q =
                    ser.serialize_map(if tag == "map" { Some(items.len()) } else { None })?;
                for it in &items {
                    let kv = it.as_array().ok_or_else(|| S::Error::custom("plan: map item"))?;
                    q.serialize_entry(&Plan(&kv[0]), &Plan(&kv[1]))?;
                }
                q.end()
            }
            "struct" => {
                let items = list(2);
                let present = items
                    .iter()
                    .filter(|it| !it.as_array().map(|kv| kv[1].is_null()).unwrap_or(true))
                    .count();
                let mut q = ser.serialize_struct(intern(s(1)), present)?;
                for it in &items {
                    let kv = it.as_array().ok_or_else(|| S::Error::custom("plan: field"))?;
                    let k = intern(kv[0].as_str().unwrap_or(""));
                    if kv[1].is_null() {
                        q.skip_field(k)?;
                    } else {
                        q.serialize_field(k, &Plan(&kv[1]))?;
                    }
                }
                q.end()
            }
            "struct_variant" => {
                let items = list(4);
                let mut q = ser.serialize_struct_variant(
                    intern(s(1)),
                    n(2) as u32,
                    intern(s(3)),
                    items.len(),
                )?;
                for it in &items {
                    let kv = it.as_array().ok_or_else(|| S::Error::custom("plan: field"))?;
                    q.serialize_field(intern(kv[0].as_str().unwrap_or("")), &Plan(&kv[1]))?;
                }
                q.end()
            }
            "fail" => Err(S::Error::custom("avmon: injected Serialize failure")),
            other => Err(S::Error::custom(format!("plan: unknown tag {other}"))),
        }
    }
}
