//! Complete structural dump of a `Schema` (the library's own PartialEq ignores most of this).

use apache_avro::Schema;
use apache_avro::schema::{
    Alias, Aliases, DecimalSchema, FixedSchema, InnerDecimalSchema, Name, UuidSchema,
};
use serde_json::{Value as J, json};

fn name(n: &Name) -> J {
    json!({"name": n.name(), "ns": n.namespace()})
}

fn aliases(a: &Aliases) -> J {
    match a {
        None => J::Null,
        Some(v) => J::Array(
            v.iter()
                .map(|a: &Alias| json!({"name": a.name(), "ns": a.namespace()}))
                .collect(),
        ),
    }
}

fn fixed(f: &FixedSchema) -> J {
    json!({"k": "fixed", "name": name(&f.name), "aliases": aliases(&f.aliases), "doc": f.doc,
           "size": f.size as u64, "attrs": f.attributes})
}

pub fn dump(s: &Schema) -> J {
    match s {
        Schema::Null => json!({"k": "null"}),
        Schema::Boolean => json!({"k": "boolean"}),
        Schema::Int => json!({"k": "int"}),
        Schema::Long => json!({"k": "long"}),
        Schema::Float => json!({"k": "float"}),
        Schema::Double => json!({"k": "double"}),
        Schema::Bytes => json!({"k": "bytes"}),
        Schema::String => json!({"k": "string"}),
        Schema::Array(a) => json!({"k": "array", "items": dump(&a.items), "attrs": a.attributes}),
        Schema::Map(m) => json!({"k": "map", "values": dump(&m.types), "attrs": m.attributes}),
        Schema::Union(u) => {
            json!({"k": "union", "branches": u.variants().iter().map(dump).collect::<Vec<_>>()})
        }
        Schema::Record(r) => json!({
            "k": "record", "name": name(&r.name), "aliases": aliases(&r.aliases), "doc": r.doc,
            "attrs": r.attributes,
            "lookup_ok": r.fields.iter().enumerate().all(|(i, f)| r.lookup.get(&f.name) == Some(&i)),
            "fields": r.fields.iter().map(|f| json!({
                "name": f.name, "doc": f.doc, "aliases": f.aliases, "has_default": f.default.is_some(),
                "default": f.default, "schema": dump(&f.schema), "attrs": f.custom_attributes,
            })).collect::<Vec<_>>(),
        }),
        Schema::Enum(e) => json!({
            "k": "enum", "name": name(&e.name), "aliases": aliases(&e.aliases), "doc": e.doc,
            "symbols": e.symbols, "default": e.default, "attrs": e.attributes,
        }),
        Schema::Fixed(f) => fixed(f),
        Schema::Decimal(DecimalSchema {
            precision,
            scale,
            inner,
        }) => json!({
            "k": "decimal", "precision": *precision as u64, "scale": *scale as u64,
            "inner": match inner { InnerDecimalSchema::Bytes => json!({"k": "bytes"}), InnerDecimalSchema::Fixed(f) => fixed(f) },
        }),
        Schema::BigDecimal => json!({"k": "big-decimal"}),
        Schema::Uuid(u) => json!({"k": "uuid", "inner": match u {
            UuidSchema::Bytes => json!({"k": "bytes"}),
            UuidSchema::String => json!({"k": "string"}),
            UuidSchema::Fixed(f) => fixed(f),
        }}),
        Schema::Date => json!({"k": "date"}),
        Schema::TimeMillis => json!({"k": "time-millis"}),
        Schema::TimeMicros => json!({"k": "time-micros"}),
        Schema::TimestampMillis => json!({"k": "timestamp-millis"}),
        Schema::TimestampMicros => json!({"k": "timestamp-micros"}),
        Schema::TimestampNanos => json!({"k": "timestamp-nanos"}),
        Schema::LocalTimestampMillis => json!({"k": "local-timestamp-millis"}),
        Schema::LocalTimestampMicros => json!({"k": "local-timestamp-micros"}),
        Schema::LocalTimestampNanos => json!({"k": "local-timestamp-nanos"}),
        Schema::Duration(f) => json!({"k": "duration", "inner": fixed(f)}),
        Schema::Ref { name: n } => json!({"k": "ref", "name": name(n)}),
    }
}
