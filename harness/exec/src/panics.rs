//! Panic hook: records message, location and the first in-repo frame (the "site").

use std::cell::RefCell;
use std::panic;

#[derive(Debug, Clone, Default)]
pub struct PanicInfo {
    pub msg: String,
    pub loc: String,
    pub site: String,
}

thread_local! {
    static LAST: RefCell<Option<PanicInfo>> = const { RefCell::new(None) };
}

pub fn first_repo_frame(bt: &str) -> String {
    // frames look like
    //   10: pcf_map
    //              at /repo/avro/src/schema/mod.rs:1153:36
    // the site is "<file relative to the repo>:<function>" of the first frame located in the
    // repository's sources (no line numbers, so it only changes when the code is reorganised).
    let lines: Vec<&str> = bt.lines().collect();
    let mut i = 0;
    while i + 1 < lines.len() {
        let t = lines[i].trim_start();
        let at = lines[i + 1].trim_start();
        if let (Some((_, sym)), Some(path)) = (t.split_once(": "), at.strip_prefix("at ")) {
            let rel = if let Some(p) = path.find("/avro/src/") {
                Some(&path[p + 1..])
            } else if let Some(p) = path.find("/avro_derive/src/") {
                Some(&path[p + 1..])
            } else {
                None
            };
            if let Some(rel) = rel {
                if !path.contains("/harness/") {
                    let file = rel.split(':').next().unwrap_or(rel);
                    let mut name = String::new();
                    let mut depth = 0;
                    for c in sym.trim().chars() {
                        match c {
                            '<' => depth += 1,
                            '>' => {
                                if depth > 0 {
                                    depth -= 1
                                }
                            }
                            _ if depth == 0 => name.push(c),
                            _ => {}
                        }
                    }
                    if name.starts_with("{closure") {
                        // name the enclosing function: the next repo frame in the same file
                        let mut k = i + 2;
                        while k + 1 < lines.len() {
                            let t2 = lines[k].trim_start();
                            let at2 = lines[k + 1].trim_start();
                            if at2.contains(file) {
                                if let Some((_, s2)) = t2.split_once(": ") {
                                    let s2 = s2.trim();
                                    if !s2.starts_with("{closure") {
                                        let base: String = s2.chars().take_while(|c| *c != '<').collect();
                                        return format!("{file}:{base}::{{closure}}");
                                    }
                                }
                            }
                            k += 2;
                        }
                    }
                    return format!("{file}:{name}");
                }
            }
            i += 2;
        } else {
            i += 1;
        }
    }
    "?".to_string()
}

pub fn install() {
    panic::set_hook(Box::new(|info| {
        let msg = if let Some(s) = info.payload().downcast_ref::<&str>() {
            s.to_string()
        } else if let Some(s) = info.payload().downcast_ref::<String>() {
            s.clone()
        } else {
            "<non-string panic>".to_string()
        };
        let loc = info
            .location()
            .map(|l| format!("{}:{}", l.file(), l.line()))
            .unwrap_or_default();
        crate::alloc::pause(true);
        let bt = std::backtrace::Backtrace::force_capture().to_string();
        if std::env::var_os("AVMON_DEBUG_BT").is_some() {
            eprintln!("{bt}");
        }
        let site = first_repo_frame(&bt);
        LAST.with(|l| *l.borrow_mut() = Some(PanicInfo { msg, loc, site }));
        crate::alloc::pause(false);
    }));
}

pub fn take() -> PanicInfo {
    LAST.with(|l| l.borrow_mut().take()).unwrap_or_default()
}

/// Run `f`, catching panics. Err carries the recorded panic info.
pub fn guard<T>(f: impl FnOnce() -> T) -> Result<T, PanicInfo> {
    match panic::catch_unwind(panic::AssertUnwindSafe(f)) {
        Ok(v) => Ok(v),
        Err(_) => Err(take()),
    }
}
