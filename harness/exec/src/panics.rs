//! Panic hook: records message, location and the first in-repo frame (the "site").

use std::cell::RefCell;
use std::panic;

#[derive(Debug, Clone, Default)]
pub struct PanicInfo {
    pub msg: String,
    pub loc: String,
    pub site: String,
}

thread_local! {
    static LAST: RefCell<Option<PanicInfo>> = const { RefCell::new(None) };
}

pub fn first_repo_frame(bt: &str) -> String {
    // frames look like "  12: apache_avro::reader::block::read_codec::{{closure}}"
    for line in bt.lines() {
        let t = line.trim_start();
        let Some((_, sym)) = t.split_once(": ") else { continue };
        let sym = sym.trim();
        let idx = sym.find("apache_avro::").or_else(|| sym.find("apache_avro_derive::"));
        if let Some(i) = idx {
            // skip `<T as Trait>` prefix noise: take from the crate path
            let mut s = &sym[i..];
            if let Some(p) = s.find("::{{closure}}") {
                s = &s[..p];
            }
            // strip trailing hash ::h0123456789abcdef
            if let Some(p) = s.rfind("::h") {
                if s.len() - p == 19 {
                    s = &s[..p];
                }
            }
            // strip generic arguments
            let mut out = String::new();
            let mut depth = 0;
            for c in s.chars() {
                match c {
                    '<' => depth += 1,
                    '>' => {
                        if depth > 0 {
                            depth -= 1
                        }
                    }
                    _ if depth == 0 => out.push(c),
                    _ => {}
                }
            }
            let out = out.replace("::::", "::");
            let out = out.trim_end_matches("::").trim_end_matches(" as").to_string();
            return out;
        }
    }
    "?".to_string()
}

pub fn install() {
    panic::set_hook(Box::new(|info| {
        let msg = if let Some(s) = info.payload().downcast_ref::<&str>() {
            s.to_string()
        } else if let Some(s) = info.payload().downcast_ref::<String>() {
            s.clone()
        } else {
            "<non-string panic>".to_string()
        };
        let loc = info
            .location()
            .map(|l| format!("{}:{}", l.file(), l.line()))
            .unwrap_or_default();
        let bt = std::backtrace::Backtrace::force_capture().to_string();
        let site = first_repo_frame(&bt);
        LAST.with(|l| *l.borrow_mut() = Some(PanicInfo { msg, loc, site }));
    }));
}

pub fn take() -> PanicInfo {
    LAST.with(|l| l.borrow_mut().take()).unwrap_or_default()
}

/// Run `f`, catching panics. Err carries the recorded panic info.
pub fn guard<T>(f: impl FnOnce() -> T) -> Result<T, PanicInfo> {
    match panic::catch_unwind(panic::AssertUnwindSafe(f)) {
        Ok(v) => Ok(v),
        Err(_) => Err(take()),
    }
}
