//! Instrumented sinks: shared in-memory buffer with a fault plan (short writes, injected errors).

use apache_avro::writer::Clearable;
use std::cell::RefCell;
use std::io::{self, ErrorKind, Write};
use std::rc::Rc;

#[derive(Debug, Clone)]
pub enum Accept {
    All,
    /// accept at most k bytes per call
    K(usize),
    /// pseudo-random 1..=max per call (xorshift seeded)
    Rand(u64, usize),
}

#[derive(Debug, Clone)]
pub struct Plan {
    pub accept: Accept,
    /// fail the i-th write call (0-based) with this kind; `once`: later calls succeed
    pub fail_write: Option<(usize, ErrorKind)>,
    pub fail_flush: Option<(usize, ErrorKind)>,
    /// if true every call from the failing index on fails (a dead sink); else only that call
    pub sticky: bool,
}

impl Default for Plan {
    fn default() -> Self {
        Plan {
            accept: Accept::All,
            fail_write: None,
            fail_flush: None,
            sticky: false,
        }
    }
}

#[derive(Debug, Clone)]
pub struct CallRec {
    pub write: bool,
    pub offered: usize,
    pub accepted: usize,
    pub err: Option<ErrorKind>,
    pub site: Option<String>,
    /// first 8 bytes offered (to re-identify re-sent remainders)
    pub offset_in_stream: usize,
}

#[derive(Debug, Default)]
pub struct State {
    pub data: Vec<u8>,
    pub plan: Plan,
    pub calls: Vec<CallRec>,
    pub n_write: usize,
    pub n_flush: usize,
    pub rng: u64,
    pub capture_sites: bool,
    pub cleared: usize,
}

#[derive(Clone)]
pub struct SharedSink(pub Rc<RefCell<State>>);

impl SharedSink {
    pub fn new(plan: Plan) -> Self {
        let rng = match plan.accept {
            Accept::Rand(s, _) => s | 1,
            _ => 1,
        };
        SharedSink(Rc::new(RefCell::new(State {
            plan,
            rng,
            ..Default::default()
        })))
    }
    pub fn plain() -> Self {
        Self::new(Plan::default())
    }
    pub fn len(&self) -> usize {
        self.0.borrow().data.len()
    }
    pub fn bytes(&self) -> Vec<u8> {
        self.0.borrow().data.clone()
    }
    /// first repo call site whose write was accepted only partially and whose remainder was not
    /// offered again by the next write call (needs capture_sites)
    pub fn loss_site(&self) -> String {
        let s = self.0.borrow();
        let writes: Vec<&CallRec> = s.calls.iter().filter(|c| c.write).collect();
        for (i, c) in writes.iter().enumerate() {
            if c.err.is_none() && c.accepted < c.offered {
                let rem = c.offered - c.accepted;
                let resent = writes.get(i + 1).map(|n| n.offered == rem && n.site == c.site).unwrap_or(false);
                if !resent {
                    return c.site.clone().unwrap_or_else(|| "?".into());
                }
            }
        }
        for c in s.calls.iter() {
            if c.err.is_some() {
                return format!("error-swallowed-after:{}", c.site.clone().unwrap_or_else(|| "?".into()));
            }
        }
        "?".into()
    }
    pub fn n_calls(&self) -> (usize, usize) {
        let s = self.0.borrow();
        (s.n_write, s.n_flush)
    }
}

fn site() -> String {
    let bt = std::backtrace::Backtrace::force_capture().to_string();
    crate::panics::first_repo_frame(&bt)
}

impl Write for SharedSink {
    fn write(&mut self, buf: &[u8]) -> io::Result<usize> {
        let mut s = self.0.borrow_mut();
        let idx = s.n_write;
        s.n_write += 1;
        let st = if s.capture_sites { Some(site()) } else { None };
        let off = s.data.len();
        if let Some((at, kind)) = s.plan.fail_write {
            if idx == at || (s.plan.sticky && idx > at) {
                s.calls.push(CallRec {
                    write: true,
                    offered: buf.len(),
                    accepted: 0,
                    err: Some(kind),
                    site: st,
                    offset_in_stream: off,
                });
                return Err(io::Error::new(kind, "injected write fault"));
            }
        }
        let k = match s.plan.accept {
            Accept::All => buf.len(),
            Accept::K(k) => buf.len().min(k.max(1)),
            Accept::Rand(_, max) => {
                let mut x = s.rng;
                x ^= x << 13;
                x ^= x >> 7;
                x ^= x << 17;
                s.rng = x;
                buf.len().min(1 + (x as usize % max.max(1)))
            }
        };
        s.data.extend_from_slice(&buf[..k]);
        s.calls.push(CallRec {
            write: true,
            offered: buf.len(),
            accepted: k,
            err: None,
            site: st,
            offset_in_stream: off,
        });
        Ok(k)
    }

    fn flush(&mut self) -> io::Result<()> {
        let mut s = self.0.borrow_mut();
        let idx = s.n_flush;
        s.n_flush += 1;
        let off = s.data.len();
        if let Some((at, kind)) = s.plan.fail_flush {
            if idx == at || (s.plan.sticky && idx > at) {
                s.calls.push(CallRec {
                    write: false,
                    offered: 0,
                    accepted: 0,
                    err: Some(kind),
                    site: None,
                    offset_in_stream: off,
                });
                return Err(io::Error::new(kind, "injected flush fault"));
            }
        }
        s.calls.push(CallRec {
            write: false,
            offered: 0,
            accepted: 0,
            err: None,
            site: None,
            offset_in_stream: off,
        });
        Ok(())
    }
}

impl Clearable for SharedSink {
    fn clear(&mut self) {
        let mut s = self.0.borrow_mut();
        s.data.clear();
        s.cleared += 1;
    }
}

pub fn kind_from_str(s: &str) -> ErrorKind {
    match s {
        "WriteZero" => ErrorKind::WriteZero,
        "Interrupted" => ErrorKind::Interrupted,
        "BrokenPipe" => ErrorKind::BrokenPipe,
        "WouldBlock" => ErrorKind::WouldBlock,
        _ => ErrorKind::Other,
    }
}

/// A reader wrapper that counts bytes handed out.
pub struct CountingRead<'a> {
    pub data: &'a [u8],
    pub pos: usize,
    pub calls: usize,
}

impl<'a> CountingRead<'a> {
    pub fn new(data: &'a [u8]) -> Self {
        CountingRead {
            data,
            pos: 0,
            calls: 0,
        }
    }
}

impl io::Read for CountingRead<'_> {
    fn read(&mut self, buf: &mut [u8]) -> io::Result<usize> {
        self.calls += 1;
        let n = buf.len().min(self.data.len() - self.pos);
        buf[..n].copy_from_slice(&self.data[self.pos..self.pos + n]);
        self.pos += n;
        Ok(n)
    }
}
