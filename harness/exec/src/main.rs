//! avmon-exec: executes workload scripts against the real apache-avro library and records events.

mod alloc;
mod anyvalue;
mod dump;
mod dynser;
mod exec;
mod exec_ocf;
mod fuzzdec;
mod panics;
mod race;
mod scan;
mod sink;
mod sinkscan;
mod tagged;

#[global_allocator]
static GLOBAL: alloc::Counting = alloc::Counting;

fn main() {
    let args: Vec<String> = std::env::args().collect();
    if args.len() < 2 {
        eprintln!("usage: avmon-exec <mode> ...");
        std::process::exit(3);
    }
    panics::install();
    let code = match args[1].as_str() {
        "exec" => run_big(move || exec::run(&args[2], &args[3])),
        "race" => race::run(&args[2], args.get(3).map(|s| s.as_str())),
        "version" => {
            println!("avmon-exec 1");
            0
        }
        m => {
            eprintln!("unknown mode {m}");
            3
        }
    };
    if code != 0 {
        std::process::exit(code);
    }
    // returning normally lets Miri / LSan run their end-of-process leak check
}

/// Run on a thread with a large stack (data nesting depth is a stated non-goal of the library).
fn run_big(f: impl FnOnce() -> i32 + Send + 'static) -> i32 {
    std::thread::Builder::new()
        .stack_size(1 << 30)
        .spawn(f)
        .expect("spawn")
        .join()
        .unwrap_or(4)
}
