//! C14 engine: every cut offset and every marker/magic byte alteration of one container file,
//! checked in-process against the block index supplied by the (independent) Python walker.

use crate::anyvalue::AnyValue;
use crate::exec::{OpErr, err_json};
use crate::panics::guard;
use crate::tagged::{to_tagged, unhex};
use apache_avro::Reader;
use serde_json::{Map, Value as J, json};
use std::cell::Cell;
use std::collections::BTreeMap;
use std::io::Read;
use std::rc::Rc;

struct SharedCountingRead<'a> {
    data: &'a [u8],
    pos: Rc<Cell<usize>>,
}

impl Read for SharedCountingRead<'_> {
    fn read(&mut self, buf: &mut [u8]) -> std::io::Result<usize> {
        let p = self.pos.get();
        let n = buf.len().min(self.data.len() - p);
        buf[..n].copy_from_slice(&self.data[p..p + n]);
        self.pos.set(p + n);
        Ok(n)
    }
}

struct Outcome {
    opened: bool,
    open_err: Option<J>,
    /// rendered values delivered before the first error / end
    values: Vec<String>,
    /// source bytes consumed at the moment each value was yielded
    pos_at_yield: Vec<usize>,
    errors: usize,
    err_not_last: bool,
    yields_after_end: bool,
    first_err: Option<J>,
    panicked: Option<J>,
}

fn read_all(data: &[u8], deser: bool, cap: usize) -> Outcome {
    let mut o = Outcome {
        opened: false,
        open_err: None,
        values: vec![],
        pos_at_yield: vec![],
        errors: 0,
        err_not_last: false,
        yields_after_end: false,
        first_err: None,
        panicked: None,
    };
    let pos = Rc::new(Cell::new(0usize));
    let r = guard(|| {
        let rd = match Reader::new(SharedCountingRead {
            data,
            pos: pos.clone(),
        }) {
            Ok(r) => r,
            Err(e) => {
                o.open_err = Some(err_json(&e));
                return;
            }
        };
        o.opened = true;
        let mut after_err = false;
        let mut handle = |item: Result<String, apache_avro::Error>, o: &mut Outcome| match item {
            Ok(v) => {
                if after_err {
                    o.err_not_last = true;
                }
                o.values.push(v);
                o.pos_at_yield.push(pos.get());
            }
            Err(e) => {
                o.errors += 1;
                if o.first_err.is_none() {
                    o.first_err = Some(err_json(&e));
                }
                after_err = true;
            }
        };
        if deser {
            let mut it = rd.into_deser_iter::<AnyValue>();
            let mut n = 0;
            while let Some(item) = it.next() {
                handle(item.map(|v| v.render().to_string()), &mut o);
                n += 1;
                if n > cap {
                    break;
                }
            }
            // a finished iterator stays finished (a consumer that keeps polling must not get items)
            for _ in 0..3 {
                if n <= cap && it.next().is_some() {
                    o.yields_after_end = true;
                }
            }
        } else {
            let mut it = rd;
            let mut n = 0;
            while let Some(item) = it.next() {
                handle(item.map(|v| to_tagged(&v).to_string()), &mut o);
                n += 1;
                if n > cap {
                    break;
                }
            }
            for _ in 0..3 {
                if n <= cap && it.next().is_some() {
                    o.yields_after_end = true;
                }
            }
        }
    });
    if let Err(p) = r {
        o.panicked = Some(crate::exec::panic_json(&p));
    }
    o
}

pub fn damage_scan(o: &Map<String, J>) -> Result<J, OpErr> {
    let data = unhex(o.get("bytes").and_then(|x| x.as_str()).ok_or("bytes")?)?;
    let header_end = o.get("header_end").and_then(|x| x.as_u64()).ok_or("header_end")? as usize;
    let deser = o.get("deser").and_then(|x| x.as_bool()).unwrap_or(false);
    let xors: Vec<u8> = match o.get("xors").and_then(|x| x.as_array()) {
        Some(a) => a.iter().filter_map(|x| x.as_u64()).map(|x| x as u8).collect(),
        None => (1..=255u8).collect(),
    };
    let cut_step = o.get("cut_step").and_then(|x| x.as_u64()).unwrap_or(1) as usize;
    // blocks: [start, count_end, size_end, payload_end, end, count]
    let mut blocks: Vec<[usize; 6]> = Vec::new();
    for b in o.get("blocks").and_then(|x| x.as_array()).ok_or("blocks")? {
        let a = b.as_array().ok_or("block")?;
        let mut t = [0usize; 6];
        for i in 0..6 {
            t[i] = a[i].as_u64().ok_or("block field")? as usize;
        }
        blocks.push(t);
    }
    let total: usize = blocks.iter().map(|b| b[5]).sum();
    let cap = total + 10;
    // the intact file
    let intact = read_all(&data, deser, cap);
    if !intact.opened || intact.errors > 0 || intact.values.len() != total || intact.panicked.is_some() {
        return Ok(json!({"intact_unreadable": {"opened": intact.opened, "errors": intact.errors, "n": intact.values.len(),
            "expected": total, "err": intact.first_err, "open_err": intact.open_err, "panic": intact.panicked}}));
    }
    let mut viol: BTreeMap<String, (usize, J)> = BTreeMap::new();
    let mut add = |sig: String, detail: J| {
        let e = viol.entry(sig).or_insert((0, detail));
        e.0 += 1;
    };
    let mut by_loc: BTreeMap<&'static str, usize> = BTreeMap::new();
    let locate = |c: usize| -> (&'static str, bool) {
        // (location class, is clean boundary)
        if c < 4 {
            return ("header-magic", false);
        }
        if c < header_end - 16 {
            return ("header-metadata", false);
        }
        if c < header_end {
            return ("header-marker", false);
        }
        if c == header_end {
            return ("boundary", true);
        }
        for b in &blocks {
            if c == b[4] {
                return ("boundary", true);
            }
            if c > b[0] && c < b[4] {
                if c < b[1] {
                    return ("block-count-varint", false);
                }
                if c == b[1] {
                    return ("after-block-count", false);
                }
                if c < b[2] {
                    return ("block-size-varint", false);
                }
                if c < b[3] || c == b[2] {
                    return ("block-payload", false);
                }
                return ("block-marker", false);
            }
        }
        ("?", false)
    };
    // ---------------------------------------------------------------- cuts
    let mut n_cuts = 0usize;
    let mut c = 0usize;
    while c < data.len() {
        let (loc, boundary) = locate(c);
        *by_loc.entry(loc).or_insert(0) += 1;
        n_cuts += 1;
        let out = read_all(&data[..c], deser, cap);
        let detail = |o: &Outcome| json!({"cut": c, "location": loc, "delivered": o.values.len(), "errors": o.errors, "err": o.first_err, "open_err": o.open_err});
        if let Some(p) = &out.panicked {
            add(format!("panic-on-cut at={loc} site={}", p["site"].as_str().unwrap_or("?")), json!({"cut": c, "panic": p}));
        } else if c < header_end {
            if out.opened {
                add(format!("opened-with-cut-in-header at={loc}"), detail(&out));
            }
        } else if !out.opened {
            add(format!("open-failed-with-complete-header at={loc}"), detail(&out));
        } else {
            let complete: usize = blocks.iter().filter(|b| b[4] <= c).map(|b| b[5]).sum();
            if out.values.len() != complete {
                add(format!("cut-delivers-{} at={loc}", if out.values.len() > complete { "more-than-complete-blocks" } else { "fewer-than-complete-blocks" }), detail(&out));
            } else if out.values.iter().zip(intact.values.iter()).any(|(a, b)| a != b) {
                add(format!("cut-delivers-different-values at={loc}"), detail(&out));
            }
            if boundary && out.errors > 0 {
                add("error-at-clean-block-boundary".to_string(), detail(&out));
            }
            if !boundary && out.errors == 0 {
                add(format!("clean-end-inside-block at={loc}"), detail(&out));
            }
            if out.errors > 1 {
                add(format!("more-than-one-error at={loc}"), detail(&out));
            }
            if out.err_not_last {
                add(format!("value-after-error at={loc}"), detail(&out));
            }
            if out.yields_after_end {
                add(format!("yields-after-end at={loc}"), detail(&out));
            }
        }
        c += cut_step;
    }
    // ---------------------------------------------------------------- markers and magic
    let mut n_alt = 0usize;
    let mut scratch = data.clone();
    // each block's trailing marker
    for (j, b) in blocks.iter().enumerate() {
        let before: usize = blocks[..j].iter().map(|x| x[5]).sum();
        for off in b[3]..b[4] {
            for x in &xors {
                scratch[off] ^= *x;
                n_alt += 1;
                let out = read_all(&scratch, deser, cap);
                scratch[off] ^= *x;
                let detail = json!({"block": j, "marker_byte": off - b[3], "xor": x, "delivered": out.values.len(), "errors": out.errors, "err": out.first_err, "expected_delivered": before});
                if let Some(p) = &out.panicked {
                    add(format!("panic-on-marker-alteration site={}", p["site"].as_str().unwrap_or("?")), detail);
                    continue;
                }
                if !out.opened {
                    add("open-failed-on-block-marker-alteration".to_string(), detail);
                    continue;
                }
                if out.values.len() > before {
                    add("value-delivered-from-block-with-altered-marker-or-later".to_string(), detail.clone());
                } else if out.values.len() < before {
                    add("marker-alteration-loses-earlier-blocks".to_string(), detail.clone());
                }
                if out.errors == 0 {
                    add("marker-alteration-not-reported".to_string(), detail.clone());
                }
                if out.err_not_last || out.yields_after_end {
                    add("value-after-marker-error".to_string(), detail.clone());
                }
                // nothing is delivered from a block whose marker has not been read and compared
                for (i, p) in out.pos_at_yield.iter().enumerate() {
                    let mut acc = 0usize;
                    for bb in &blocks {
                        acc += bb[5];
                        if i < acc {
                            if *p < bb[4] {
                                add("value-yielded-before-its-block-marker-was-read".to_string(), detail.clone());
                            }
                            break;
                        }
                    }
                }
            }
        }
    }
    // header marker: every block then mismatches
    if !blocks.is_empty() {
        for off in (header_end - 16)..header_end {
            for x in xors.iter().take(3) {
                scratch[off] ^= *x;
                n_alt += 1;
                let out = read_all(&scratch, deser, cap);
                scratch[off] ^= *x;
                if out.panicked.is_none() && (out.values.len() > 0 || (out.opened && out.errors == 0)) {
                    add("header-marker-alteration-not-detected".to_string(), json!({"byte": off, "xor": x, "delivered": out.values.len()}));
                }
            }
        }
    }
    for off in 0..4 {
        for x in &xors {
            scratch[off] ^= *x;
            n_alt += 1;
            let out = read_all(&scratch, deser, cap);
            scratch[off] ^= *x;
            if out.opened {
                add("altered-magic-accepted".to_string(), json!({"byte": off, "xor": x}));
            }
        }
    }
    // value-yield timing on the intact file
    for (i, p) in intact.pos_at_yield.iter().enumerate() {
        let mut acc = 0usize;
        for bb in &blocks {
            acc += bb[5];
            if i < acc {
                if *p < bb[4] {
                    add("value-yielded-before-its-block-marker-was-read".to_string(), json!({"item": i, "pos": p, "block_end": bb[4]}));
                }
                break;
            }
        }
    }
    let violations: Vec<J> = viol
        .into_iter()
        .map(|(k, (n, d))| json!({"sig": k, "count": n, "first": d}))
        .collect();
    Ok(json!({"cuts": n_cuts, "alterations": n_alt, "by_location": by_loc, "violations": violations, "n_values": total, "n_blocks": blocks.len()}))
}
