//! Counting global allocator (thread-local accounting, so the monitor itself has no shared state).

use std::alloc::{GlobalAlloc, Layout, System};
use std::cell::Cell;

pub struct Counting;

thread_local! {
    /// trap: when a single request exceeds this, capture a backtrace (attribution of over-allocation)
    static TRAP: Cell<usize> = const { Cell::new(usize::MAX) };
    static IN_TRAP: Cell<bool> = const { Cell::new(false) };
    static TRAP_SITE: std::cell::RefCell<Option<String>> = const { std::cell::RefCell::new(None) };
    static MAX_REQ: Cell<usize> = const { Cell::new(0) };
    static LIVE: Cell<usize> = const { Cell::new(0) };
    static PEAK: Cell<usize> = const { Cell::new(0) };
    static TOTAL: Cell<usize> = const { Cell::new(0) };
    static N: Cell<usize> = const { Cell::new(0) };
}

/// Requests above this are refused (and logged to stderr first) so that a runaway request is
/// recorded before the process dies.
pub const HARD_CAP: usize = 8 << 30;

#[derive(Debug, Clone, Copy, Default)]
pub struct Stats {
    pub max_req: usize,
    pub peak_live_delta: usize,
    pub total: usize,
    pub n: usize,
}

/// suspend accounting (used while the panic hook symbolises a backtrace: those allocations
/// are the monitor's, not the library's)
pub fn pause(on: bool) {
    let _ = IN_TRAP.try_with(|t| t.set(on));
}

pub fn set_trap(threshold: usize) {
    TRAP.with(|t| t.set(threshold));
    TRAP_SITE.with(|s| *s.borrow_mut() = None);
}

pub fn take_trap_site() -> Option<String> {
    TRAP.with(|t| t.set(usize::MAX));
    TRAP_SITE.with(|s| s.borrow_mut().take())
}

fn note(size: usize) {
    if IN_TRAP.try_with(|t| t.get()).unwrap_or(true) {
        return;
    }
    if size > TRAP.try_with(|t| t.get()).unwrap_or(usize::MAX) {
        let _ = IN_TRAP.try_with(|t| t.set(true));
        let bt = std::backtrace::Backtrace::force_capture().to_string();
        let site = crate::panics::first_repo_frame(&bt);
        let _ = TRAP_SITE.try_with(|s| {
            let mut s = s.borrow_mut();
            if s.is_none() {
                *s = Some(site);
            }
        });
        let _ = IN_TRAP.try_with(|t| t.set(false));
    }
    let _ = MAX_REQ.try_with(|m| {
        if size > m.get() {
            m.set(size)
        }
    });
    let _ = TOTAL.try_with(|t| t.set(t.get().wrapping_add(size)));
    let _ = N.try_with(|t| t.set(t.get() + 1));
    let _ = LIVE.try_with(|l| {
        let v = l.get().wrapping_add(size);
        l.set(v);
        let _ = PEAK.try_with(|p| {
            if v > p.get() {
                p.set(v)
            }
        });
    });
}

fn note_free(size: usize) {
    let _ = LIVE.try_with(|l| l.set(l.get().saturating_sub(size)));
}

unsafe impl GlobalAlloc for Counting {
    unsafe fn alloc(&self, layout: Layout) -> *mut u8 {
        if layout.size() > HARD_CAP {
            refuse(layout.size());
            return std::ptr::null_mut();
        }
        note(layout.size());
        unsafe { System.alloc(layout) }
    }
    unsafe fn alloc_zeroed(&self, layout: Layout) -> *mut u8 {
        if layout.size() > HARD_CAP {
            refuse(layout.size());
            return std::ptr::null_mut();
        }
        note(layout.size());
        unsafe { System.alloc_zeroed(layout) }
    }
    unsafe fn dealloc(&self, ptr: *mut u8, layout: Layout) {
        note_free(layout.size());
        unsafe { System.dealloc(ptr, layout) }
    }
    unsafe fn realloc(&self, ptr: *mut u8, layout: Layout, new_size: usize) -> *mut u8 {
        if new_size > HARD_CAP {
            refuse(new_size);
            return std::ptr::null_mut();
        }
        note_free(layout.size());
        note(new_size);
        unsafe { System.realloc(ptr, layout, new_size) }
    }
}

static mut CURRENT: [u8; 2048] = [0; 2048];
static mut CURRENT_LEN: usize = 0;

/// remember the input of the call in flight (dumped by `refuse`, so that an abort is attributable)
pub fn set_current_input(b: &[u8]) {
    let n = b.len().min(2048);
    unsafe {
        let dst = (&raw mut CURRENT) as *mut u8;
        std::ptr::copy_nonoverlapping(b.as_ptr(), dst, n);
        CURRENT_LEN = n;
    }
}

fn refuse(size: usize) {
    // no allocation here: fixed buffer, raw write to fd 2
    let mut buf = [0u8; 64];
    let prefix = b"AVMON-ALLOC-REFUSED ";
    buf[..prefix.len()].copy_from_slice(prefix);
    let mut i = prefix.len();
    let mut digits = [0u8; 24];
    let mut n = size;
    let mut d = 0;
    loop {
        digits[d] = b'0' + (n % 10) as u8;
        d += 1;
        n /= 10;
        if n == 0 {
            break;
        }
    }
    while d > 0 {
        d -= 1;
        buf[i] = digits[d];
        i += 1;
    }
    buf[i] = b'\n';
    i += 1;
    unsafe {
        libc_write(2, buf.as_ptr(), i);
        // hex dump of the input in flight
        let mut hexbuf = [0u8; 4200];
        let pre = b"AVMON-INPUT ";
        hexbuf[..pre.len()].copy_from_slice(pre);
        let mut k = pre.len();
        let src = (&raw const CURRENT) as *const u8;
        for j in 0..CURRENT_LEN {
            let b = *src.add(j);
            hexbuf[k] = b"0123456789abcdef"[(b >> 4) as usize];
            hexbuf[k + 1] = b"0123456789abcdef"[(b & 15) as usize];
            k += 2;
        }
        hexbuf[k] = b'\n';
        libc_write(2, hexbuf.as_ptr(), k + 1);
    }
    let _ = MAX_REQ.try_with(|m| {
        if size > m.get() {
            m.set(size)
        }
    });
}

unsafe extern "C" {
    #[link_name = "write"]
    fn libc_write(fd: i32, buf: *const u8, n: usize) -> isize;
}

/// Reset the per-call counters (call at the call event).
pub fn reset() {
    MAX_REQ.with(|m| m.set(0));
    TOTAL.with(|m| m.set(0));
    N.with(|m| m.set(0));
    let live = LIVE.with(|l| l.get());
    PEAK.with(|p| p.set(live));
    BASE.with(|b| b.set(live));
}

thread_local! { static BASE: Cell<usize> = const { Cell::new(0) }; }

pub fn stats() -> Stats {
    Stats {
        max_req: MAX_REQ.with(|m| m.get()),
        peak_live_delta: PEAK.with(|p| p.get()).saturating_sub(BASE.with(|b| b.get())),
        total: TOTAL.with(|m| m.get()),
        n: N.with(|m| m.get()),
    }
}
