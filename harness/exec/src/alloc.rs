//! Counting global allocator (thread-local accounting, so the monitor itself has no shared state).

use std::alloc::{GlobalAlloc, Layout, System};
use std::cell::Cell;

pub struct Counting;

thread_local! {
    static MAX_REQ: Cell<usize> = const { Cell::new(0) };
    static LIVE: Cell<usize> = const { Cell::new(0) };
    static PEAK: Cell<usize> = const { Cell::new(0) };
    static TOTAL: Cell<usize> = const { Cell::new(0) };
    static N: Cell<usize> = const { Cell::new(0) };
}

/// Requests above this are refused (and logged to stderr first) so that a runaway request is
/// recorded before the process dies.
pub const HARD_CAP: usize = 8 << 30;

#[derive(Debug, Clone, Copy, Default)]
pub struct Stats {
    pub max_req: usize,
    pub peak_live_delta: usize,
    pub total: usize,
    pub n: usize,
}

fn note(size: usize) {
    let _ = MAX_REQ.try_with(|m| {
        if size > m.get() {
            m.set(size)
        }
    });
    let _ = TOTAL.try_with(|t| t.set(t.get().wrapping_add(size)));
    let _ = N.try_with(|t| t.set(t.get() + 1));
    let _ = LIVE.try_with(|l| {
        let v = l.get().wrapping_add(size);
        l.set(v);
        let _ = PEAK.try_with(|p| {
            if v > p.get() {
                p.set(v)
            }
        });
    });
}

fn note_free(size: usize) {
    let _ = LIVE.try_with(|l| l.set(l.get().saturating_sub(size)));
}

unsafe impl GlobalAlloc for Counting {
    unsafe fn alloc(&self, layout: Layout) -> *mut u8 {
        if layout.size() > HARD_CAP {
            refuse(layout.size());
            return std::ptr::null_mut();
        }
        note(layout.size());
        unsafe { System.alloc(layout) }
    }
    unsafe fn alloc_zeroed(&self, layout: Layout) -> *mut u8 {
        if layout.size() > HARD_CAP {
            refuse(layout.size());
            return std::ptr::null_mut();
        }
        note(layout.size());
        unsafe { System.alloc_zeroed(layout) }
    }
    unsafe fn dealloc(&self, ptr: *mut u8, layout: Layout) {
        note_free(layout.size());
        unsafe { System.dealloc(ptr, layout) }
    }
    unsafe fn realloc(&self, ptr: *mut u8, layout: Layout, new_size: usize) -> *mut u8 {
        if new_size > HARD_CAP {
            refuse(new_size);
            return std::ptr::null_mut();
        }
        note_free(layout.size());
        note(new_size);
        unsafe { System.realloc(ptr, layout, new_size) }
    }
}

fn refuse(size: usize) {
    // no allocation here: fixed buffer, raw write to fd 2
    let mut buf = [0u8; 64];
    let prefix = b"AVMON-ALLOC-REFUSED ";
    buf[..prefix.len()].copy_from_slice(prefix);
    let mut i = prefix.len();
    let mut digits = [0u8; 24];
    let mut n = size;
    let mut d = 0;
    loop {
        digits[d] = b'0' + (n % 10) as u8;
        d += 1;
        n /= 10;
        if n == 0 {
            break;
        }
    }
    while d > 0 {
        d -= 1;
        buf[i] = digits[d];
        i += 1;
    }
    buf[i] = b'\n';
    i += 1;
    unsafe {
        libc_write(2, buf.as_ptr(), i);
    }
    let _ = MAX_REQ.try_with(|m| {
        if size > m.get() {
            m.set(size)
        }
    });
}

unsafe extern "C" {
    #[link_name = "write"]
    fn libc_write(fd: i32, buf: *const u8, n: usize) -> isize;
}

/// Reset the per-call counters (call at the call event).
pub fn reset() {
    MAX_REQ.with(|m| m.set(0));
    TOTAL.with(|m| m.set(0));
    N.with(|m| m.set(0));
    let live = LIVE.with(|l| l.get());
    PEAK.with(|p| p.set(live));
    BASE.with(|b| b.set(live));
}

thread_local! { static BASE: Cell<usize> = const { Cell::new(0) }; }

pub fn stats() -> Stats {
    Stats {
        max_req: MAX_REQ.with(|m| m.get()),
        peak_live_delta: PEAK.with(|p| p.get()).saturating_sub(BASE.with(|b| b.get())),
        total: TOTAL.with(|m| m.get()),
        n: N.with(|m| m.get()),
    }
}
