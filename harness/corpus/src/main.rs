//! avmon-corpus: typed (serde / derive) corpus for C16 and C17.
#[path = "../../exec/src/panics.rs"]
mod panics;
#[path = "../../exec/src/tagged.rs"]
mod tagged;
#[path = "../../exec/src/dump.rs"]
mod dump;
mod arb;
mod check;
mod hand;
mod derived_fixed;
#[cfg(feature = "seeded")]
mod derived_seeded;

// panics.rs refers to crate::alloc::pause
mod alloc {
    pub fn pause(_on: bool) {}
}

pub fn err_kind(e: &apache_avro::Error) -> String {
    let d = e.to_string();
    let end = d.find(|c: char| !(c.is_ascii_alphabetic() || c == ' ' || c == '-' || c == '\'')).unwrap_or(d.len());
    let words: Vec<&str> = d[..end].split_whitespace().take(6).collect();
    if words.is_empty() { "Error".into() } else { words.join("-") }
}

pub type Entry = (&'static str, Box<dyn Fn(&mut arb::Rng, usize) -> check::TypeReport + Send>);

fn main() {
    let args: Vec<String> = std::env::args().collect();
    if args.len() < 5 {
        eprintln!("usage: avmon-corpus <c16|c17> <seed> <values-per-type> <out.json> [shard i n]");
        std::process::exit(3);
    }
    panics::install();
    let seed: u64 = args[2].parse().unwrap_or(1);
    let n: usize = args[3].parse().unwrap_or(50);
    let (si, sn): (usize, usize) = if args.len() >= 8 { (args[6].parse().unwrap_or(0), args[7].parse().unwrap_or(1)) } else { (0, 1) };
    let mut reg: Vec<Entry> = Vec::new();
    match args[1].as_str() {
        "c16" => hand::register(&mut reg),
        "c18" => {
            check::SINGLE_OBJECT_MODE.store(true, std::sync::atomic::Ordering::Relaxed);
            hand::register(&mut reg);
        }
        _ => {
            derived_fixed::register(&mut reg);
            #[cfg(feature = "seeded")]
            derived_seeded::register(&mut reg);
        }
    }
    let code = std::thread::Builder::new()
        .stack_size(256 << 20)
        .spawn(move || {
            let mut out = Vec::new();
            for (i, (name, f)) in reg.iter().enumerate() {
                if i % sn != si {
                    continue;
                }
                let mut r = arb::Rng(seed.wrapping_mul(0x9E3779B97F4A7C15) ^ (i as u64 + 1).wrapping_mul(0xD1B54A32D192ED03) | 1);
                let rep = f(&mut r, n);
                let _ = name;
                out.push(rep.json());
            }
            std::fs::write(&args[4], serde_json::json!({"types": out}).to_string()).expect("write out");
            0
        })
        .unwrap()
        .join()
        .unwrap_or(4);
    std::process::exit(code);
}
