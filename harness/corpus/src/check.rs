//! Per-type monitors for C16 (serde and generic paths agree) and C17 (derived schemas fit their type).
use crate::arb::{Arb, Rng};
use crate::panics::guard;
use apache_avro::reader::datum::GenericDatumReader;
use apache_avro::types::Value;
use apache_avro::writer::datum::GenericDatumWriter;
use apache_avro::{AvroSchema, Reader, Schema, Writer, from_value, to_value};
use serde::{Serialize, de::DeserializeOwned};
use serde_json::{Value as J, json};
use std::collections::BTreeMap;
use std::fmt::Debug;

pub struct TypeReport {
    pub name: String,
    pub coinciding: bool,
    viol: BTreeMap<String, (usize, J)>,
    pub values: usize,
    pub checks: usize,
    pub samples: Vec<J>,
    pub schema_json: Option<String>,
    pub dump: Option<J>,
}

impl TypeReport {
    fn add(&mut self, sig: &str, d: J) {
        self.viol.entry(sig.to_string()).or_insert((0, d)).0 += 1;
    }
    pub fn json(self) -> J {
        json!({"name": self.name, "coinciding": self.coinciding, "values": self.values, "checks": self.checks, "samples": self.samples,
            "schema_json": self.schema_json, "dump": self.dump,
            "violations": self.viol.into_iter().map(|(k, (n, d))| json!({"sig": k, "count": n, "first": d})).collect::<Vec<_>>()})
    }
}

fn hex(b: &[u8]) -> String {
    crate::tagged::hex(b)
}

/// Value equality modulo map entry order (HashMap) with floats by bits: via the tagged rendering
fn veq(a: &Value, b: &Value) -> bool {
    crate::tagged::to_tagged(a) == crate::tagged::to_tagged(b)
}

pub fn check_type<T>(name: &str, coinciding: bool, derived_checks: bool, r: &mut Rng, n: usize) -> TypeReport
where
    T: Arb + Serialize + DeserializeOwned + AvroSchema + PartialEq + Debug,
{
    let mut rep = TypeReport {
        name: name.to_string(),
        coinciding,
        viol: BTreeMap::new(),
        values: 0,
        checks: 0,
        samples: vec![],
        schema_json: None,
        dump: None,
    };
    // ------------------------------------------------------------ the schema itself
    let schema = match guard(T::get_schema) {
        Ok(s) => s,
        Err(p) => {
            rep.add(&format!("get_schema-panic site={}", p.site), json!({"msg": p.msg}));
            return rep;
        }
    };
    rep.dump = Some(crate::dump::dump(&schema));
    let js = serde_json::to_string(&schema).ok();
    rep.schema_json = js.clone();
    if derived_checks {
        // the same on every call
        match guard(T::get_schema) {
            Ok(s2) => {
                if crate::dump::dump(&s2) != crate::dump::dump(&schema) {
                    rep.add("schema-differs-between-calls", json!({}));
                }
            }
            Err(p) => rep.add(&format!("get_schema-panic site={}", p.site), json!({"msg": p.msg, "call": 2})),
        }
        // survives a JSON round trip
        match &js {
            None => rep.add("schema-not-serializable", json!({})),
            Some(text) => match guard(|| Schema::parse_str(text)) {
                Ok(Ok(s2)) => {
                    if crate::dump::dump(&s2) != crate::dump::dump(&schema) {
                        rep.add("schema-json-roundtrip-differs", json!({"json": text}));
                    }
                }
                Ok(Err(e)) => rep.add("schema-json-does-not-reparse", json!({"json": text, "err": e.to_string().chars().take(200).collect::<String>()})),
                Err(p) => rep.add(&format!("schema-reparse-panic site={}", p.site), json!({"json": text})),
            },
        }
    }
    let reader = match GenericDatumReader::builder(&schema).build() {
        Ok(x) => x,
        Err(e) => {
            rep.add("schema-not-resolvable", json!({"err": e.to_string().chars().take(200).collect::<String>()}));
            return rep;
        }
    };
    let mut container_vals: Vec<T> = Vec::new();
    for i in 0..n {
        let t = T::arb(r, 0);
        rep.values += 1;
        for tbs in [None, Some(1usize), Some(16), Some(4096)] {
            rep.checks += 1;
            let writer = match GenericDatumWriter::builder(&schema).maybe_target_block_size(tbs).build() {
                Ok(w) => w,
                Err(_) => continue,
            };
            let mut bytes = Vec::new();
            let wr = guard(|| writer.write_ser(&mut bytes, &t));
            let ctx = |bytes: &Vec<u8>| json!({"value": format!("{t:?}").chars().take(300).collect::<String>(), "target_block_size": tbs, "bytes": hex(&bytes[..bytes.len().min(200)])});
            let count = match wr {
                Err(p) => {
                    rep.add(&format!("write_ser-panic site={}", p.site), ctx(&bytes));
                    continue;
                }
                Ok(Err(e)) => {
                    rep.add(&format!("write_ser-error kind={}", crate::err_kind(&e)), json!({"value": format!("{t:?}").chars().take(300).collect::<String>(), "err": e.to_string().chars().take(200).collect::<String>()}));
                    break;
                }
                Ok(Ok(c)) => c,
            };
            if count != bytes.len() {
                rep.add("write_ser-count-differs", json!({"returned": count, "emitted": bytes.len(), "ctx": ctx(&bytes)}));
            }
            if rep.samples.len() < 3 && i < 3 && tbs != Some(4096) {
                rep.samples.push(json!({"bytes": hex(&bytes), "target_block_size": tbs}));
            }
            // schema-aware deserializer gives back an equal value
            let mut cur = &bytes[..];
            match guard(|| reader.read_deser::<T>(&mut cur)) {
                Err(p) => rep.add(&format!("read_deser-panic site={}", p.site), ctx(&bytes)),
                Ok(Err(e)) => rep.add(&format!("read_deser-error kind={}", crate::err_kind(&e)), json!({"ctx": ctx(&bytes), "err": e.to_string().chars().take(200).collect::<String>()})),
                Ok(Ok(t2)) => {
                    if t2 != t {
                        rep.add("read_deser-value-differs", json!({"ctx": ctx(&bytes), "got": format!("{t2:?}").chars().take(300).collect::<String>()}));
                    }
                    if !cur.is_empty() {
                        rep.add("read_deser-does-not-consume-all", json!({"ctx": ctx(&bytes), "left": cur.len()}));
                    }
                }
            }
            // the generic decoder accepts the bytes as exactly one conforming datum
            let mut cur = &bytes[..];
            let gv = match guard(|| reader.read_value(&mut cur)) {
                Err(p) => {
                    rep.add(&format!("read_value-panic site={}", p.site), ctx(&bytes));
                    None
                }
                Ok(Err(e)) => {
                    rep.add(&format!("generic-decoder-rejects-serde-bytes kind={}", crate::err_kind(&e)), ctx(&bytes));
                    None
                }
                Ok(Ok(v)) => {
                    if !cur.is_empty() {
                        rep.add("generic-decoder-does-not-consume-all", json!({"ctx": ctx(&bytes), "left": cur.len()}));
                    }
                    if !guard(|| v.validate(&schema)).unwrap_or(false) {
                        rep.add("generic-value-of-serde-bytes-does-not-validate", ctx(&bytes));
                    }
                    Some(v)
                }
            };
            // coinciding class: to_value -> resolve -> encode gives the same datum; from_value recovers t
            if coinciding && tbs.is_none() {
                match guard(|| to_value(&t).and_then(|v| v.resolve(&schema))) {
                    Err(p) => rep.add(&format!("to_value-resolve-panic site={}", p.site), ctx(&bytes)),
                    Ok(Err(e)) => rep.add(&format!("to_value-resolve-error kind={}", crate::err_kind(&e)), json!({"ctx": ctx(&bytes), "err": e.to_string().chars().take(200).collect::<String>()})),
                    Ok(Ok(rv)) => {
                        let mut b2 = Vec::new();
                        let w2 = GenericDatumWriter::builder(&schema).build().unwrap();
                        match guard(|| w2.write_value_ref(&mut b2, &rv)) {
                            Ok(Ok(_)) => {
                                let mut c2 = &b2[..];
                                match (reader.read_value(&mut c2), &gv) {
                                    (Ok(v2), Some(v1)) => {
                                        if !veq(&v2, v1) {
                                            rep.add("generic-path-encodes-a-different-datum", json!({"ctx": ctx(&bytes), "generic_bytes": hex(&b2[..b2.len().min(200)])}));
                                        }
                                    }
                                    (Err(e), _) => rep.add(&format!("generic-path-bytes-unreadable kind={}", crate::err_kind(&e)), ctx(&bytes)),
                                    _ => {}
                                }
                            }
                            Ok(Err(e)) => rep.add(&format!("generic-path-encode-error kind={}", crate::err_kind(&e)), json!({"ctx": ctx(&bytes), "err": e.to_string().chars().take(200).collect::<String>()})),
                            Err(p) => rep.add(&format!("generic-path-encode-panic site={}", p.site), ctx(&bytes)),
                        }
                    }
                }
                if let Some(v1) = &gv {
                    match guard(|| from_value::<T>(v1)) {
                        Ok(Ok(t3)) => {
                            if t3 != t {
                                rep.add("from_value-does-not-recover-the-value", json!({"ctx": ctx(&bytes), "got": format!("{t3:?}").chars().take(300).collect::<String>()}));
                            }
                        }
                        Ok(Err(e)) => rep.add(&format!("from_value-error kind={}", crate::err_kind(&e)), json!({"ctx": ctx(&bytes), "err": e.to_string().chars().take(200).collect::<String>()})),
                        Err(p) => rep.add(&format!("from_value-panic site={}", p.site), ctx(&bytes)),
                    }
                }
            }
        }
        if container_vals.len() < 12 {
            container_vals.push(t);
        }
    }
    // ------------------------------------------------------------ through a container file
    if derived_checks && !container_vals.is_empty() {
        let res = guard(|| -> Result<Vec<T>, apache_avro::Error> {
            let mut w = Writer::new(&schema, Vec::new())?;
            for t in &container_vals {
                w.append_ser(t)?;
            }
            let data = w.into_inner()?;
            let rd = Reader::new(&data[..])?;
            rd.into_deser_iter::<T>().collect()
        });
        match res {
            Err(p) => rep.add(&format!("container-roundtrip-panic site={}", p.site), json!({"msg": p.msg})),
            Ok(Err(e)) => rep.add(&format!("container-roundtrip-error kind={}", crate::err_kind(&e)), json!({"err": e.to_string().chars().take(200).collect::<String>()})),
            Ok(Ok(back)) => {
                if back != container_vals {
                    rep.add("container-roundtrip-differs", json!({"n_written": container_vals.len(), "n_read": back.len()}));
                }
            }
        }
    }
    rep
}
