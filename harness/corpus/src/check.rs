//! Per-type monitors for C16 (serde and generic paths agree) and C17 (derived schemas fit their type).
use crate::arb::{Arb, Rng};
use crate::panics::guard;
use apache_avro::reader::datum::GenericDatumReader;
use apache_avro::types::Value;
use apache_avro::writer::datum::GenericDatumWriter;
use apache_avro::{AvroSchema, Reader, Schema, Writer, from_value, to_value};
use serde::{Serialize, de::DeserializeOwned};
use serde_json::{Value as J, json};
use std::collections::BTreeMap;
use std::fmt::Debug;
use std::sync::atomic::{AtomicBool, Ordering};

/// set by main for `avmon-corpus c18`: run the typed single-object monitors instead of the C16/C17 ones
pub static SINGLE_OBJECT_MODE: AtomicBool = AtomicBool::new(false);

pub struct TypeReport {
    pub name: String,
    pub coinciding: bool,
    viol: BTreeMap<String, (usize, J)>,
    pub values: usize,
    pub checks: usize,
    pub samples: Vec<J>,
    pub schema_json: Option<String>,
    pub dump: Option<J>,
}

impl TypeReport {
    fn add(&mut self, sig: &str, d: J) {
        self.viol.entry(sig.to_string()).or_insert((0, d)).0 += 1;
    }
    pub fn json(self) -> J {
        json!({"name": self.name, "coinciding": self.coinciding, "values": self.values, "checks": self.checks, "samples": self.samples,
            "schema_json": self.schema_json, "dump": self.dump,
            "violations": self.viol.into_iter().map(|(k, (n, d))| json!({"sig": k, "count": n, "first": d})).collect::<Vec<_>>()})
    }
}

fn hex(b: &[u8]) -> String {
    crate::tagged::hex(b)
}

/// Value equality modulo map entry order (HashMap) with floats by bits: via the tagged rendering
fn veq(a: &Value, b: &Value) -> bool {
    crate::tagged::to_tagged(a) == crate::tagged::to_tagged(b)
}

pub fn check_type<T>(name: &str, coinciding: bool, derived_checks: bool, r: &mut Rng, n: usize) -> TypeReport
where
    T: Arb + Serialize + DeserializeOwned + AvroSchema + PartialEq + Debug,
{
    let mut rep = TypeReport {
        name: name.to_string(),
        coinciding,
        viol: BTreeMap::new(),
        values: 0,
        checks: 0,
        samples: vec![],
        schema_json: None,
        dump: None,
    };
    // ------------------------------------------------------------ the schema itself
    let schema = match guard(T::get_schema) {
        Ok(s) => s,
        Err(p) => {
            rep.add(&format!("get_schema-panic site={}", p.site), json!({"msg": p.msg}));
            return rep;
        }
    };
    rep.dump = Some(crate::dump::dump(&schema));
    let js = serde_json::to_string(&schema).ok();
    rep.schema_json = js.clone();
    if derived_checks {
        // the same on every call
        match guard(T::get_schema) {
            Ok(s2) => {
                if crate::dump::dump(&s2) != crate::dump::dump(&schema) {
                    rep.add("schema-differs-between-calls", json!({}));
                }
            }
            Err(p) => rep.add(&format!("get_schema-panic site={}", p.site), json!({"msg": p.msg, "call": 2})),
        }
        // survives a JSON round trip
        match &js {
            None => rep.add("schema-not-serializable", json!({})),
            Some(text) => match guard(|| Schema::parse_str(text)) {
                Ok(Ok(s2)) => {
                    if crate::dump::dump(&s2) != crate::dump::dump(&schema) {
                        rep.add("schema-json-roundtrip-differs", json!({"json": text}));
                    }
                }
                Ok(Err(e)) => rep.add("schema-json-does-not-reparse", json!({"json": text, "err": e.to_string().chars().take(200).collect::<String>()})),
                Err(p) => rep.add(&format!("schema-reparse-panic site={}", p.site), json!({"json": text})),
            },
        }
    }
    if SINGLE_OBJECT_MODE.load(Ordering::Relaxed) {
        so_checks::<T>(&mut rep, &schema, r, n);
        return rep;
    }
    let reader = match GenericDatumReader::builder(&schema).build() {
        Ok(x) => x,
        Err(e) => {
            rep.add("schema-not-resolvable", json!({"err": e.to_string().chars().take(200).collect::<String>()}));
            return rep;
        }
    };
    let mut container_vals: Vec<T> = Vec::new();
    for i in 0..n {
        let t = T::arb(r, 0);
        rep.values += 1;
        for tbs in [None, Some(1usize), Some(16), Some(4096)] {
            rep.checks += 1;
            let writer = match GenericDatumWriter::builder(&schema).maybe_target_block_size(tbs).build() {
                Ok(w) => w,
                Err(_) => continue,
            };
            let mut bytes = Vec::new();
            let wr = guard(|| writer.write_ser(&mut bytes, &t));
            let ctx = |bytes: &Vec<u8>| json!({"value": format!("{t:?}").chars().take(300).collect::<String>(), "target_block_size": tbs, "bytes": hex(&bytes[..bytes.len().min(200)])});
            let count = match wr {
                Err(p) => {
                    rep.add(&format!("write_ser-panic site={}", p.site), ctx(&bytes));
                    continue;
                }
                Ok(Err(e)) => {
                    rep.add(&format!("write_ser-error kind={}", crate::err_kind(&e)), json!({"value": format!("{t:?}").chars().take(300).collect::<String>(), "err": e.to_string().chars().take(200).collect::<String>()}));
                    break;
                }
                Ok(Ok(c)) => c,
            };
            if count != bytes.len() {
                rep.add("write_ser-count-differs", json!({"returned": count, "emitted": bytes.len(), "ctx": ctx(&bytes)}));
            }
            if rep.samples.len() < 3 && i < 3 && tbs != Some(4096) {
                rep.samples.push(json!({"bytes": hex(&bytes), "target_block_size": tbs}));
            }
            // schema-aware deserializer gives back an equal value
            let mut cur = &bytes[..];
            match guard(|| reader.read_deser::<T>(&mut cur)) {
                Err(p) => rep.add(&format!("read_deser-panic site={}", p.site), ctx(&bytes)),
                Ok(Err(e)) => rep.add(&format!("read_deser-error kind={}", crate::err_kind(&e)), json!({"ctx": ctx(&bytes), "err": e.to_string().chars().take(200).collect::<String>()})),
                Ok(Ok(t2)) => {
                    if t2 != t {
                        rep.add("read_deser-value-differs", json!({"ctx": ctx(&bytes), "got": format!("{t2:?}").chars().take(300).collect::<String>()}));
                    }
                    if !cur.is_empty() {
                        rep.add("read_deser-does-not-consume-all", json!({"ctx": ctx(&bytes), "left": cur.len()}));
                    }
                }
            }
            // the generic decoder accepts the bytes as exactly one conforming datum
            let mut cur = &bytes[..];
            let gv = match guard(|| reader.read_value(&mut cur)) {
                Err(p) => {
                    rep.add(&format!("read_value-panic site={}", p.site), ctx(&bytes));
                    None
                }
                Ok(Err(e)) => {
                    rep.add(&format!("generic-decoder-rejects-serde-bytes kind={}", crate::err_kind(&e)), ctx(&bytes));
                    None
                }
                Ok(Ok(v)) => {
                    if !cur.is_empty() {
                        rep.add("generic-decoder-does-not-consume-all", json!({"ctx": ctx(&bytes), "left": cur.len()}));
                    }
                    if !guard(|| v.validate(&schema)).unwrap_or(false) {
                        rep.add("generic-value-of-serde-bytes-does-not-validate", ctx(&bytes));
                    }
                    Some(v)
                }
            };
            // coinciding class: to_value -> resolve -> encode gives the same datum; from_value recovers t
            if coinciding && tbs.is_none() {
                match guard(|| to_value(&t).and_then(|v| v.resolve(&schema))) {
                    Err(p) => rep.add(&format!("to_value-resolve-panic site={}", p.site), ctx(&bytes)),
                    Ok(Err(e)) => rep.add(&format!("to_value-resolve-error kind={}", crate::err_kind(&e)), json!({"ctx": ctx(&bytes), "err": e.to_string().chars().take(200).collect::<String>()})),
                    Ok(Ok(rv)) => {
                        let mut b2 = Vec::new();
                        let w2 = GenericDatumWriter::builder(&schema).build().unwrap();
                        match guard(|| w2.write_value_ref(&mut b2, &rv)) {
                            Ok(Ok(_)) => {
                                let mut c2 = &b2[..];
                                match (reader.read_value(&mut c2), &gv) {
                                    (Ok(v2), Some(v1)) => {
                                        if !veq(&v2, v1) {
                                            rep.add("generic-path-encodes-a-different-datum", json!({"ctx": ctx(&bytes), "generic_bytes": hex(&b2[..b2.len().min(200)])}));
                                        }
                                    }
                                    (Err(e), _) => rep.add(&format!("generic-path-bytes-unreadable kind={}", crate::err_kind(&e)), ctx(&bytes)),
                                    _ => {}
                                }
                            }
                            Ok(Err(e)) => rep.add(&format!("generic-path-encode-error kind={}", crate::err_kind(&e)), json!({"ctx": ctx(&bytes), "err": e.to_string().chars().take(200).collect::<String>()})),
                            Err(p) => rep.add(&format!("generic-path-encode-panic site={}", p.site), ctx(&bytes)),
                        }
                    }
                }
                if let Some(v1) = &gv {
                    match guard(|| from_value::<T>(v1)) {
                        Ok(Ok(t3)) => {
                            if t3 != t {
                                rep.add("from_value-does-not-recover-the-value", json!({"ctx": ctx(&bytes), "got": format!("{t3:?}").chars().take(300).collect::<String>()}));
                            }
                        }
                        Ok(Err(e)) => rep.add(&format!("from_value-error kind={}", crate::err_kind(&e)), json!({"ctx": ctx(&bytes), "err": e.to_string().chars().take(200).collect::<String>()})),
                        Err(p) => rep.add(&format!("from_value-panic site={}", p.site), ctx(&bytes)),
                    }
                }
            }
        }
        if container_vals.len() < 12 {
            container_vals.push(t);
        }
    }
    // ------------------------------------------------------------ through a container file
    if derived_checks && !container_vals.is_empty() {
        let res = guard(|| -> Result<Vec<T>, apache_avro::Error> {
            let mut w = Writer::new(&schema, Vec::new())?;
            for t in &container_vals {
                w.append_ser(t)?;
            }
            let data = w.into_inner()?;
            let rd = Reader::new(&data[..])?;
            rd.into_deser_iter::<T>().collect()
        });
        match res {
            Err(p) => rep.add(&format!("container-roundtrip-panic site={}", p.site), json!({"msg": p.msg})),
            Ok(Err(e)) => rep.add(&format!("container-roundtrip-error kind={}", crate::err_kind(&e)), json!({"err": e.to_string().chars().take(200).collect::<String>()})),
            Ok(Ok(back)) => {
                if back != container_vals {
                    rep.add("container-roundtrip-differs", json!({"n_written": container_vals.len(), "n_read": back.len()}));
                }
            }
        }
    }
    rep
}


/// C18 through the typed API: `SpecificSingleObjectWriter<T>` built in each documented way (new, builder, builder with an explicitly
/// configured schema) writes header = C3 01 + CRC-64-AVRO of the schema it encodes with; the message is read back by the generic reader
/// of that schema and by the typed reader; a reader of another schema refuses it.
fn so_checks<T>(rep: &mut TypeReport, schema: &Schema, r: &mut Rng, n: usize)
where
    T: Arb + Serialize + DeserializeOwned + AvroSchema + PartialEq + Debug,
{
    use apache_avro::rabin::Rabin;
    use apache_avro::{GenericSingleObjectReader, SpecificSingleObjectReader, SpecificSingleObjectWriter};
    let header_of = |s: &Schema| {
        let mut h = vec![0xC3u8, 0x01];
        h.extend_from_slice(&s.fingerprint::<Rabin>().bytes);
        h
    };
    // the same record under a namespace: another schema (another fingerprint) that still fits T's serde shape
    let moved: Option<Schema> = rep.schema_json.as_ref().and_then(|js| serde_json::from_str::<J>(js).ok()).and_then(|mut j| {
        let o = j.as_object_mut()?;
        if o.get("type")?.as_str()? != "record" || o.contains_key("namespace") || o.get("name")?.as_str()?.contains('.') {
            return None;
        }
        o.insert("namespace".into(), json!("verif.moved"));
        Schema::parse(&j).ok()
    });
    let mut writers: Vec<(&str, SpecificSingleObjectWriter<T>, Schema)> = Vec::new();
    match guard(SpecificSingleObjectWriter::<T>::new) {
        Ok(Ok(w)) => writers.push(("new", w, schema.clone())),
        Ok(Err(e)) => rep.add(&format!("typed-writer-construction-error via=new kind={}", crate::err_kind(&e)), json!({})),
        Err(p) => rep.add(&format!("typed-writer-construction-panic via=new site={}", p.site), json!({"msg": p.msg})),
    }
    match guard(|| SpecificSingleObjectWriter::<T>::builder().build()) {
        Ok(w) => writers.push(("builder", w, schema.clone())),
        Err(p) => rep.add(&format!("typed-writer-construction-panic via=builder site={}", p.site), json!({"msg": p.msg})),
    }
    match guard(|| SpecificSingleObjectWriter::<T>::builder().resolved(schema.clone()).map(|b| b.target_block_size(1).build())) {
        Ok(Ok(w)) => writers.push(("builder+same-schema+blocks", w, schema.clone())),
        Ok(Err(e)) => rep.add(&format!("typed-writer-construction-error via=builder+same-schema kind={}", crate::err_kind(&e)), json!({})),
        Err(p) => rep.add(&format!("typed-writer-construction-panic via=builder+same-schema site={}", p.site), json!({"msg": p.msg})),
    }
    if let Some(m) = &moved {
        match guard(|| SpecificSingleObjectWriter::<T>::builder().resolved(m.clone()).map(|b| b.build())) {
            Ok(Ok(w)) => writers.push(("builder+other-schema", w, m.clone())),
            Ok(Err(_)) => {}
            Err(p) => rep.add(&format!("typed-writer-construction-panic via=builder+other-schema site={}", p.site), json!({"msg": p.msg})),
        }
    }
    let typed_reader = guard(SpecificSingleObjectReader::<T>::new).ok().and_then(|x| x.ok());
    for i in 0..n.min(12) {
        let t = T::arb(r, 0);
        rep.values += 1;
        for (via, w, used) in &writers {
            rep.checks += 1;
            let mut msg = Vec::new();
            let ctx = |msg: &Vec<u8>| json!({"via": via, "value": format!("{t:?}").chars().take(200).collect::<String>(), "message": hex(&msg[..msg.len().min(120)])});
            let count = match guard(|| w.write_ref(&t, &mut msg)) {
                Err(p) => {
                    rep.add(&format!("typed-write-panic via={via} site={}", p.site), ctx(&msg));
                    continue;
                }
                Ok(Err(e)) => {
                    // values the schema cannot take are C16/C17 matter; only the moved schema may legitimately refuse
                    if *via != "builder+other-schema" {
                        rep.add(&format!("typed-write-error via={via} kind={}", crate::err_kind(&e)), ctx(&msg));
                    }
                    continue;
                }
                Ok(Ok(c)) => c,
            };
            if count != msg.len() {
                rep.add(&format!("typed-write-count-differs via={via}"), json!({"returned": count, "emitted": msg.len()}));
            }
            if msg.len() < 10 || msg[..10] != header_of(used)[..] {
                rep.add(&format!("typed-header-is-not-the-fingerprint-of-the-writers-schema via={via}"), ctx(&msg));
            }
            if i == 0 {
                rep.samples.push(json!({"via": via, "schema_json": serde_json::to_string(used).unwrap_or_default(), "pcf": used.canonical_form(), "message": hex(&msg)}));
            }
            match guard(|| GenericSingleObjectReader::builder().schema(used.clone()).build().and_then(|rd| {
                let mut cur = &msg[..];
                let v = rd.read_deser::<T>(&mut cur)?;
                Ok((v, cur.len()))
            })) {
                Ok(Ok((t2, left))) => {
                    if t2 != t {
                        rep.add(&format!("typed-message-reads-back-different via={via}"), ctx(&msg));
                    }
                    if left != 0 {
                        rep.add(&format!("typed-message-not-consumed via={via}"), ctx(&msg));
                    }
                }
                Ok(Err(e)) => rep.add(&format!("typed-message-rejected-by-reader-of-its-schema via={via} kind={}", crate::err_kind(&e)), ctx(&msg)),
                Err(p) => rep.add(&format!("typed-read-panic via={via} site={}", p.site), ctx(&msg)),
            }
            if *via == "builder+other-schema" {
                // a reader for T's own schema must refuse the message of the other schema
                if let Ok(Ok(rd)) = guard(|| GenericSingleObjectReader::builder().schema(schema.clone()).build()) {
                    if let Ok(Ok(_)) = guard(|| rd.read_value(&mut &msg[..])) {
                        rep.add("foreign-typed-message-accepted", ctx(&msg));
                    }
                }
            } else if let Some(tr) = &typed_reader {
                match guard(|| tr.read(&mut &msg[..])) {
                    Ok(Ok(t2)) => {
                        if t2 != t {
                            rep.add(&format!("typed-reader-reads-back-different via={via}"), ctx(&msg));
                        }
                    }
                    Ok(Err(e)) => rep.add(&format!("typed-reader-rejects via={via} kind={}", crate::err_kind(&e)), ctx(&msg)),
                    Err(p) => rep.add(&format!("typed-reader-panic via={via} site={}", p.site), ctx(&msg)),
                }
            }
        }
    }
}
