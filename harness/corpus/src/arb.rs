//! Tiny seeded value generator for corpus types (boundary biased, no NaN so that PartialEq is usable).
use std::collections::{BTreeMap, HashMap};

pub struct Rng(pub u64);
impl Rng {
    pub fn next(&mut self) -> u64 {
        let mut x = self.0;
        x ^= x << 13;
        x ^= x >> 7;
        x ^= x << 17;
        self.0 = x;
        x
    }
    pub fn below(&mut self, n: usize) -> usize {
        (self.next() % n.max(1) as u64) as usize
    }
    pub fn coin(&mut self) -> bool {
        self.next() & 1 == 1
    }
}

pub trait Arb: Sized {
    fn arb(r: &mut Rng, depth: u32) -> Self;
}

macro_rules! arb_int {
    ($($t:ty),*) => {$(
        impl Arb for $t {
            fn arb(r: &mut Rng, _d: u32) -> Self {
                match r.below(6) {
                    0 => 0 as $t,
                    1 => <$t>::MAX,
                    2 => <$t>::MIN,
                    3 => (r.next() % 200) as $t,
                    4 => 64 as $t,
                    _ => r.next() as $t,
                }
            }
        }
    )*};
}
arb_int!(i8, i16, i32, i64, u8, u16, u32, u64);

impl Arb for i128 {
    fn arb(r: &mut Rng, _d: u32) -> Self {
        match r.below(4) {
            0 => 0,
            1 => i128::MAX,
            2 => i128::MIN,
            _ => ((r.next() as u128) << 64 | r.next() as u128) as i128,
        }
    }
}
impl Arb for u128 {
    fn arb(r: &mut Rng, _d: u32) -> Self {
        match r.below(3) {
            0 => 0,
            1 => u128::MAX,
            _ => (r.next() as u128) << 64 | r.next() as u128,
        }
    }
}
impl Arb for bool {
    fn arb(r: &mut Rng, _d: u32) -> Self {
        r.coin()
    }
}
impl Arb for f32 {
    fn arb(r: &mut Rng, _d: u32) -> Self {
        match r.below(6) {
            0 => 0.0,
            1 => -0.0,
            2 => f32::INFINITY,
            3 => f32::MIN_POSITIVE,
            4 => 1.5,
            _ => {
                let x = f32::from_bits(r.next() as u32);
                if x.is_nan() { 2.25 } else { x }
            }
        }
    }
}
impl Arb for f64 {
    fn arb(r: &mut Rng, _d: u32) -> Self {
        match r.below(6) {
            0 => 0.0,
            1 => -0.0,
            2 => f64::NEG_INFINITY,
            3 => f64::MAX,
            4 => -2.5,
            _ => {
                let x = f64::from_bits(r.next());
                if x.is_nan() { 3.125 } else { x }
            }
        }
    }
}
impl Arb for char {
    fn arb(r: &mut Rng, _d: u32) -> Self {
        ['a', 'Z', '0', 'é', '中', '😀', '"', '\\', '\n', '\u{0}'][r.below(10)]
    }
}
impl Arb for String {
    fn arb(r: &mut Rng, _d: u32) -> Self {
        match r.below(6) {
            0 => String::new(),
            1 => "a".into(),
            2 => "é中😀".into(),
            3 => "q\"\\\n".into(),
            4 => "x".repeat(70),
            _ => (0..r.below(12)).map(|_| ['a', 'b', ' ', 'ß', '7'][r.below(5)]).collect(),
        }
    }
}
impl Arb for () {
    fn arb(_r: &mut Rng, _d: u32) -> Self {}
}
impl<T: Arb> Arb for Option<T> {
    fn arb(r: &mut Rng, d: u32) -> Self {
        if d > 5 || r.below(3) == 0 { None } else { Some(T::arb(r, d + 1)) }
    }
}
impl<T: Arb> Arb for Box<T> {
    fn arb(r: &mut Rng, d: u32) -> Self {
        Box::new(T::arb(r, d + 1))
    }
}
impl<T: Arb> Arb for Vec<T> {
    fn arb(r: &mut Rng, d: u32) -> Self {
        let n = if d > 4 { 0 } else { [0, 1, 2, 5][r.below(4)] };
        (0..n).map(|_| T::arb(r, d + 1)).collect()
    }
}
impl<T: Arb> Arb for BTreeMap<String, T> {
    fn arb(r: &mut Rng, d: u32) -> Self {
        let n = if d > 4 { 0 } else { [0, 1, 3][r.below(3)] };
        (0..n).map(|i| (format!("k{}{}", i, r.below(9)), T::arb(r, d + 1))).collect()
    }
}
impl<T: Arb> Arb for HashMap<String, T> {
    fn arb(r: &mut Rng, d: u32) -> Self {
        let n = if d > 4 { 0 } else { [0, 1, 3][r.below(3)] };
        (0..n).map(|i| (format!("h{}{}", i, r.below(9)), T::arb(r, d + 1))).collect()
    }
}
impl<T: Arb, const N: usize> Arb for [T; N] {
    fn arb(r: &mut Rng, d: u32) -> Self {
        std::array::from_fn(|_| T::arb(r, d + 1))
    }
}
impl<A: Arb, B: Arb> Arb for (A, B) {
    fn arb(r: &mut Rng, d: u32) -> Self {
        (A::arb(r, d + 1), B::arb(r, d + 1))
    }
}
impl<A: Arb, B: Arb, C: Arb> Arb for (A, B, C) {
    fn arb(r: &mut Rng, d: u32) -> Self {
        (A::arb(r, d + 1), B::arb(r, d + 1), C::arb(r, d + 1))
    }
}
impl Arb for uuid::Uuid {
    fn arb(r: &mut Rng, _d: u32) -> Self {
        uuid::Uuid::from_u128((r.next() as u128) << 64 | r.next() as u128)
    }
}
